#!/usr/bin/env python3
"""mkmut.py <file-in-repo> <name> <<< JSON {"a": old, "b": new}: write /tmp/mut/<name>.diff, always restoring the file."""
import json, subprocess, sys
f, name = sys.argv[1], sys.argv[2]
m = json.load(sys.stdin)
s = open(f).read()
try:
    assert s.count(m["a"]) == 1, ("anchor count", s.count(m["a"]))
    open(f, "w").write(s.replace(m["a"], m["b"]))
    d = subprocess.check_output(["git", "-C", "/repo", "diff"], text=True)
    open("/tmp/mut/%s.diff" % name, "w").write(d)
finally:
    open(f, "w").write(s)
print("ok", name)
