#!/usr/bin/env python3
"""seedeval.py <ID> [--thorough] — confirm a sub-agent's seeded change and run our check against it.

Input : /tmp/seed/<ID>/out/{patch.diff, demo files, demo_cmd.txt, meta.json}
Steps : (1) patch applies to /repo HEAD; (2) in a scratch worktree under /tmp: build, existing suite
        (known flake "process failed to exit gracefully" tolerated), demo fails with the patch and passes
        without it; (3) apply to /repo, run ./vcheck <ID> quick (optionally thorough), always revert;
        (4) store everything under /verif/seeded/<ID>/ with what was run and the verdict.
"""
import json, os, shutil, subprocess, sys, time

ID = sys.argv[1]
thorough = "--thorough" in sys.argv
ROOT = os.environ.get("SEED_SRC", "/tmp/seed")
SUFFIX = os.environ.get("SEED_SUFFIX", "")
SRC = "%s/%s/out" % (ROOT, ID)
WT = "/tmp/seedeval/%s%s" % (ID, SUFFIX)
DST = "/verif/seeded/%s%s" % (ID, SUFFIX)
ran = []


def sh(cmd, cwd=None, timeout=1800, env=None):
    e = dict(os.environ)
    e["GOFLAGS"] = "-mod=mod"
    if env:
        e.update(env)
    t0 = time.time()
    p = subprocess.run(cmd, shell=True, cwd=cwd, env=e, stdout=subprocess.PIPE, stderr=subprocess.STDOUT, text=True, timeout=timeout, errors="replace")
    ran.append({"cmd": cmd, "cwd": cwd, "rc": p.returncode, "secs": round(time.time() - t0, 1), "tail": p.stdout[-600:]})
    return p.returncode, p.stdout


def suite(cwd):
    """existing suite; returns list of failing tests that are not the known flake"""
    rc, out = sh("go test -vet=off -count=1 . 2>&1 | grep -A1 -E '^(--- FAIL|    --- FAIL)'", cwd=cwd)
    bad = []
    lines = out.splitlines()
    for i, l in enumerate(lines):
        if "--- FAIL" in l:
            nxt = lines[i + 1] if i + 1 < len(lines) else ""
            if "--- FAIL" in nxt:
                continue  # parent of a failing subtest
            if "process failed to exit gracefully" not in nxt:
                bad.append(l.strip() + " | " + nxt.strip())
    return bad


patch = os.path.join(SRC, "patch.diff")
if not os.path.exists(patch):
    print("no patch for", ID)
    sys.exit(2)
meta = json.load(open(os.path.join(SRC, "meta.json"))) if os.path.exists(os.path.join(SRC, "meta.json")) else {}
demo_cmd = open(os.path.join(SRC, "demo_cmd.txt")).read().strip() if os.path.exists(os.path.join(SRC, "demo_cmd.txt")) else ""
verdict = {"property": ID}

rc, out = sh("git apply --check %s" % patch, cwd="/repo")
verdict["applies_to_repo_head"] = rc == 0
if rc != 0:
    print("patch does not apply:", out[-400:])

shutil.rmtree(WT, ignore_errors=True)
os.makedirs(os.path.dirname(WT), exist_ok=True)
sh("git worktree prune", cwd="/repo")
rc, out = sh("git worktree add -q --detach %s HEAD" % WT, cwd="/repo")
try:
    # demo files into the worktree
    demos = [f for f in os.listdir(SRC) if f not in ("patch.diff", "meta.json", "demo_cmd.txt")]
    for f in demos:
        if os.path.isdir(os.path.join(SRC, f)):
            shutil.copytree(os.path.join(SRC, f), os.path.join(WT, f), dirs_exist_ok=True)
        else:
            shutil.copy(os.path.join(SRC, f), os.path.join(WT, f))
    cmd = demo_cmd.replace("%s/%s/wt" % (ROOT, ID), WT).replace("%s/%s/out" % (ROOT, ID), WT)
    if not cmd:
        cmd = "go test -vet=off -count=1 -run 'Seed|Demo' ."
    # the agents' commands often start by copying the demo into their own worktree: already done here
    cmd = " && ".join(l.strip() for l in cmd.splitlines() if l.strip() and not l.strip().startswith("#"))
    cmd = " && ".join(part.strip() for part in cmd.split("&&") if part.strip() and not part.strip().startswith("cp "))
    if "cd " not in cmd:
        cmd = "cd %s && %s" % (WT, cmd)
    # without the change: demo passes (twice)
    rc1, o1 = sh(cmd, cwd=WT)
    rc1b, _ = sh(cmd, cwd=WT)
    verdict["demo_passes_without_change"] = rc1 == 0 and rc1b == 0
    # with the change
    rc, out = sh("git apply %s" % patch, cwd=WT)
    rcb, _ = sh("go build ./... && go vet -vet=off . >/dev/null 2>&1; go build ./...", cwd=WT)
    verdict["builds"] = rcb == 0
    rc2, o2 = sh(cmd, cwd=WT)
    verdict["demo_fails_with_change"] = rc2 != 0
    # the existing suite, without the demonstration files
    for f in demos:
        pth = os.path.join(WT, f)
        if os.path.isdir(pth):
            shutil.rmtree(pth, ignore_errors=True)
        elif os.path.exists(pth):
            os.remove(pth)
    bad = suite(WT)
    if bad:
        bad2 = suite(WT)
        bad = [b for b in bad if any(b.split(" | ")[0] == c.split(" | ")[0] for c in bad2)]
    verdict["suite_failures_beyond_known_flake"] = bad
finally:
    sh("git worktree remove --force %s" % WT, cwd="/repo")
    sh("git worktree prune", cwd="/repo")
    shutil.rmtree(WT, ignore_errors=True)

confirmed = verdict.get("applies_to_repo_head") and verdict.get("builds") and verdict.get("demo_passes_without_change") and verdict.get("demo_fails_with_change") and not verdict.get("suite_failures_beyond_known_flake")
verdict["confirmed"] = bool(confirmed)

caught = None
if confirmed:
    for tier in (["quick", "thorough"] if thorough else ["quick"]):
        rc, out = sh("/verif/mut.sh %s %s %s" % (patch, ID, tier), cwd="/verif", timeout=7200)
        lines = [l for l in out.splitlines() if ("violation detail" in l or "VIOLATION" in l or " %s:" % tier in l or "INFRA" in l or "mut rc" in l)]
        verdict["vcheck_%s" % tier] = {"rc": rc, "lines": [l[:500] for l in lines[-6:]]}
        if rc == 1:
            caught = tier
            break
    # mut.sh works on a scratch worktree and a scratch results directory: /repo and /verif/evidence are untouched
verdict["caught_by"] = ("./vcheck %s %s" % (ID, caught)) if caught else None

os.makedirs(DST, exist_ok=True)
shutil.copy(patch, os.path.join(DST, "patch.diff"))
for f in os.listdir(SRC):
    if f not in ("patch.diff", "meta.json"):
        s = os.path.join(SRC, f)
        if os.path.isdir(s):
            shutil.copytree(s, os.path.join(DST, f), dirs_exist_ok=True)
        else:
            shutil.copy(s, os.path.join(DST, f))
meta.update({"verification": verdict, "ran_by_us": ran})
json.dump(meta, open(os.path.join(DST, "meta.json"), "w"), indent=1)
print(json.dumps(verdict, indent=1))
