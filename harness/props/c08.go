package props

import (
	"fmt"
	"os"
	"strings"
	"sync"
	"time"

	plugin "github.com/hashicorp/go-plugin"
	"github.com/hashicorp/go-plugin/verifhook"
	"pgregory.net/rapid"
)

// C08 — multiplexed gRPC broker routes each announced stream to its ID's listener.

type c08Est struct {
	HostAccepts bool `json:"host_accepts"`
	DialFirst   bool `json:"dial_first"`
	GapMs       int  `json:"gap_ms"`
	// schedule perturbation (delays only) for this establishment, in ms
	DBeforeListener int `json:"d_before_listener"`
	DServerAccepted int `json:"d_server_accepted"`
	DKnockReceived  int `json:"d_knock_received"`
	// in-process mode: the accepting side calls Accept and starts serving the listener only this much
	// later (its own grpc.Server instead of AcceptAndServe); 0 = AcceptAndServe
	ServeDelayMs int `json:"serve_delay_ms,omitempty"`
	// LateAccept (in-process mode, dial-first): the accept comes more than 5 s after the dial, so the
	// first knock has timed out; the dialler keeps trying its first call (as a caller with retries
	// does) and gRPC knocks again. Outside the pending window nothing is promised about the first
	// attempt, but the establishment must not damage the ones that follow.
	LateAccept bool `json:"late_accept,omitempty"`
}

type c08Case struct {
	Mode string   `json:"mode"` // ip | sub
	TLS  string   `json:"tls"`  // sub only
	Ests []c08Est `json:"ests"`
}

var c08Delays = []int{0, 0, 0, 1, 5, 20}

func c08GenEsts(t *rapid.T, maxK int, perEstDelays bool) []c08Est {
	k := 1 + uniform(t, "k", maxK)
	var ests []c08Est
	for i := 0; i < k; i++ {
		e := c08Est{HostAccepts: rapid.Bool().Draw(t, "hostaccepts"), DialFirst: rapid.Bool().Draw(t, "dialfirst")}
		switch weighted(t, "gapclass", 72, 20, 5, 3) {
		case 0:
			e.GapMs = uniform(t, "gap", 30)
		case 1:
			e.GapMs = uniform(t, "gapm", 300)
		case 2:
			e.GapMs = 500 + uniform(t, "gapl", 3001)
		case 3:
			// the accept comes after the dialler's first knock has timed out (5 s) and gRPC has knocked
			// again: the establishment still completes, and must leave nothing behind for the next one
			if perEstDelays {
				e.DialFirst = true
				e.LateAccept = true
				e.GapMs = 6200 + uniform(t, "gapxl", 800)
			} else {
				e.GapMs = 500 + uniform(t, "gapl", 3001)
			}
		}
		if perEstDelays || i == 0 {
			e.DBeforeListener = oneOf(t, "d1", c08Delays)
			e.DServerAccepted = oneOf(t, "d2", c08Delays)
			e.DKnockReceived = oneOf(t, "d3", c08Delays)
		} else {
			e.DBeforeListener, e.DServerAccepted, e.DKnockReceived = ests[0].DBeforeListener, ests[0].DServerAccepted, ests[0].DKnockReceived
		}
		if perEstDelays && pct(t, "slowserve", 25) {
			e.ServeDelayMs = oneOf(t, "servedelay", []int{1, 300, 1100, 1500, 2500})
		}
		ests = append(ests, e)
	}
	return ests
}

func c08Gen(t *rapid.T) any { return &c08Case{Mode: "ip", Ests: c08GenEsts(t, 5, true)} }
func c08SubGen(t *rapid.T) any {
	// in a subprocess the plugin's hook delays come from its environment: one vector per case
	return &c08Case{Mode: "sub", TLS: []string{"", "auto"}[weighted(t, "tls", 60, 40)], Ests: c08GenEsts(t, 4, false)}
}

var c08HookMu sync.Mutex
var c08HookDelays map[string]time.Duration

func c08SetHooks(e c08Est) {
	c08HookMu.Lock()
	c08HookDelays = map[string]time.Duration{
		"grpcbroker.accept.mux.beforeListener": time.Duration(e.DBeforeListener) * time.Millisecond,
		"grpcmux.server.accepted":              time.Duration(e.DServerAccepted) * time.Millisecond,
		"grpcbroker.knock.received":            time.Duration(e.DKnockReceived) * time.Millisecond,
	}
	c08HookMu.Unlock()
}

func c08Hook(name string) {
	c08HookMu.Lock()
	d := c08HookDelays[name]
	c08HookMu.Unlock()
	if d > 0 {
		time.Sleep(d)
	}
}

// runSequential performs the establishments one at a time (documented precondition of multiplexing).
func c08RunSequential(out *Outcome, host *localEnd, plug brokerEnd, ping func() error, ests []c08Est, setHooks func(c08Est)) {
	type done struct {
		id          uint32
		hostAccepts bool
	}
	var earlier []done
	for i, e := range ests {
		id := uint32(i + 1)
		setHooks(e)
		acc, dia := plug, brokerEnd(host)
		wantSide := "plugin"
		if e.HostAccepts {
			acc, dia, wantSide = host, plug, "host"
		}
		at, dt := 0, e.GapMs
		if e.DialFirst {
			at, dt = e.GapMs, 0
		}
		if le, ok := acc.(*localEnd); ok && e.ServeDelayMs > 0 {
			le.acceptSlow(id, time.Duration(at)*time.Millisecond, time.Duration(e.ServeDelayMs)*time.Millisecond)
			out.label("slow-serve")
		} else {
			acc.accept(id, time.Duration(at)*time.Millisecond)
		}
		var tag Tag
		var err error
		dialFn := dia.dial
		if le, ok := dia.(*localEnd); ok && e.LateAccept {
			dialFn = le.dialRetry
			out.label("late-accept")
		}
		if _, ok := within(40*time.Second, func() { tag, err = dialFn(id, time.Duration(dt)*time.Millisecond) }); !ok {
			out.Slow = fmt.Sprintf("establishment %d did not finish within 40 s", id)
			return
		}
		desc := fmt.Sprintf("establishment %d of %d (%s accepts, dial-first=%v, gap %d ms, serve delay %d ms, delays beforeListener=%d serverAccepted=%d knockReceived=%d ms)", id, len(ests), wantSide, e.DialFirst, e.GapMs, e.ServeDelayMs, e.DBeforeListener, e.DServerAccepted, e.DKnockReceived)
		if err != nil {
			if isTimeoutErr(err) {
				out.Slow = desc + ": " + err.Error()
				return
			}
			out.violate("%s failed: %v", desc, firstLine(err))
			return
		}
		if tag.Broker != id || tag.Side != wantSide {
			who := fmt.Sprintf("the server accepted on id %d on the %s side", tag.Broker, tag.Side)
			if tag.Name == "main" {
				who = "the plugin's MAIN service listener"
			}
			out.violate("%s: the connection dialled for id %d was served by %s", desc, id, who)
			return
		}
		// the main control connection keeps working ...
		var perr error
		if _, ok := within(20*time.Second, func() { perr = ping() }); !ok {
			out.Slow = "Ping on the main connection did not return within 20 s after " + desc
			return
		}
		if perr != nil {
			out.violate("after %s the main control connection is broken: %v", desc, firstLine(perr))
			return
		}
		// ... and so do the earlier brokered connections made by the host
		for _, d := range earlier {
			if !d.hostAccepts {
				t2, aerr := host.again(d.id)
				if aerr != nil || t2.Broker != d.id {
					out.violate("after %s the earlier brokered connection for id %d no longer works: %v %+v", desc, d.id, aerr, t2)
					return
				}
			}
		}
		earlier = append(earlier, done{id, e.HostAccepts})
	}
}

func c08Run(ci any) (out Outcome) {
	c := ci.(*c08Case)
	anyDelay := false
	for _, e := range c.Ests {
		if e.DialFirst {
			out.label("dial-first")
		} else {
			out.label("accept-first")
		}
		if e.DBeforeListener+e.DServerAccepted+e.DKnockReceived > 0 {
			anyDelay = true
			out.label("hook-delay")
		}
		if e.DBeforeListener > 0 && e.DialFirst {
			out.label("dial-first+beforeListener-delay")
		}
	}
	out.label("ests:%d", len(c.Ests))
	dialFirst := strings.Contains(fmt.Sprint(out.Labels), "dial-first")
	out.NonTrivial = dialFirst || anyDelay || len(c.Ests) >= 3
	verifhook.Set(c08Hook)
	defer verifhook.Set(nil)
	defer c08SetHooks(c08Est{})

	if c.Mode == "sub" {
		out.label("tls:%s", c.TLS)
		set := SetSpec{Kind: "grpc"}
		cc := HostCfg{LegacyVersion: 1, Legacy: &set, Allowed: []string{"grpc"}, TLS: c.TLS, Mux: true}.clientConfig()
		cc.Cmd = pluginCmd(PluginSpec{LegacyVersion: 1, Legacy: &set, GRPCServer: true})
		e0 := c.Ests[0]
		cc.Cmd.Env = []string{fmt.Sprintf("VERIF_HOOKS=grpcbroker.accept.mux.beforeListener=sleep:%dms;grpcmux.server.accepted=sleep:%dms;grpcbroker.knock.received=sleep:%dms", e0.DBeforeListener, e0.DServerAccepted, e0.DKnockReceived)}
		cl := plugin.NewClient(cc)
		defer killBounded(cl, 20*time.Second)
		var h Handle
		var cp plugin.ClientProtocol
		var err error
		if _, ok := within(30*time.Second, func() { h, cp, err = dispense(cl, "p") }); !ok {
			out.Slow = "start+dispense did not return within 30 s"
			return
		}
		if err != nil {
			out.violate("could not start the multiplexing plugin: %v", err)
			return
		}
		host := &localEnd{br: h.(*grpcHandle).broker, name: "host"}
		defer host.cleanup()
		c08RunSequential(&out, host, &remoteEnd{h: h}, cp.Ping, c.Ests, c08SetHooks)
		return
	}
	p, err := newGRPCPair(true)
	if err != nil {
		out.violate("could not build the in-process multiplexed gRPC pair: %v", err)
		return
	}
	host, plug := &localEnd{br: p.host, name: "host"}, &localEnd{br: p.plug, name: "plugin"}
	defer func() {
		host.cleanup()
		plug.cleanup()
		p.close()
	}()
	c08RunSequential(&out, host, plug, p.client.Ping, c.Ests, c08SetHooks)
	_ = os.Getpid
	return
}

const c08Rule = "rapid draws 1-5 (sub: 1-4) brokered establishments performed strictly one after the other (documented precondition): direction, accept-first / dial-first, gap (75% < 30 ms, 20% < 300 ms, 5% up to 3.5 s) and a delay vector (0/1/5/20 ms) for the schedule points " +
	"'knock listener started, ID's listener not yet registered', 'server muxer accepted a stream' and 'knock received'; after every establishment a Ping on the main connection and a call on every earlier host-dialled brokered connection. " +
	"Oracle: the tag service behind the connection dialled for id n says 'accepted on id n on the accepting side' (never the main service, never another id), the first call succeeds, Ping and earlier connections keep working. Non-trivial: dial-first, a non-zero hook delay, or >= 3 establishments."

var propC08 = register(&Prop{
	ID: "C08", Gen: c08Gen, New: func() any { return &c08Case{} }, Run: c08Run,
	Rule:        "in-process multiplexed gRPC pair, delays injected through verifhook.Set: " + c08Rule,
	Assumptions: []string{"multiplexed establishments are sequential (documented); hook actions are delays only, so every observed behaviour is one of a real schedule"},
})

var propC08Sub = register(&Prop{
	ID: "C08", Name: "C08Sub", Gen: c08SubGen, New: func() any { return &c08Case{} }, Run: c08Run,
	Rule: "real multiplexing plugin subprocess (TLS none / AutoMTLS); the plugin's hook delays come from VERIF_HOOKS (one vector per case), the host's from verifhook.Set: " + c08Rule,
})
