package props

import (
	"bytes"
	"encoding/json"
	"fmt"
	"os/exec"
	"reflect"
	"strings"
	"time"

	hclog "github.com/hashicorp/go-hclog"
	plugin "github.com/hashicorp/go-plugin"
	"github.com/hashicorp/go-plugin/runner"
	"pgregory.net/rapid"
)

// C10 — plugin output never crashes or stalls the host; stderr is forwarded faithfully.

type c10Line struct {
	Data []byte `json:"d"`
	Term string `json:"t"` // "\n" | "\r\n" | "" (only the last line)
	Kind string `json:"k"` // generator class (for labels only; the oracle re-derives everything from Data)
}

type c10Case struct {
	Buf    int       `json:"buf"` // PluginLogBufferSize (0 = default 64 KiB)
	Stderr []c10Line `json:"stderr"`
	// Stdout after the handshake: Lines lines of LineLen bytes; NoNL: no newline at all
	StdoutLines   int  `json:"stdout_lines"`
	StdoutLineLen int  `json:"stdout_line_len"`
	StdoutNoNL    bool `json:"stdout_no_nl"`
	StdoutFirst   bool `json:"stdout_first"` // write stdout before stderr
}

var c10Levels = []string{"trace", "debug", "info", "warn", "error"}

func c10GenText(t *rapid.T, label string, max int) []byte {
	n := rapid.IntRange(0, max).Draw(t, label+"len")
	b := make([]byte, n)
	alphabet := []byte("abcdefghijklmnopqrstuvwxyz 0123456789:=[]{}\",@\t\x00\xff\xc3\r")
	for i := range b {
		b[i] = alphabet[rapid.IntRange(0, len(alphabet)-1).Draw(t, label)]
	}
	// a line is what is between newlines
	return bytes.ReplaceAll(b, []byte("\n"), []byte(" "))
}

func c10GenJSONValue(t *rapid.T, depth int) any {
	k := uniform(t, "jv", 8)
	if depth > 1 && k >= 6 {
		k = 0
	}
	switch k {
	case 0:
		return rapid.StringMatching(`[a-z0-9 ]{0,12}`).Draw(t, "js")
	case 1:
		if pct(t, "jbig", 30) {
			// the whole float64 range is legal JSON: beyond int64, beyond 2^53, tiny, fractional
			return oneOf(t, "jbign", []float64{1e19, 18446744073709551615, -1e19, 1e300, -1e300, 9223372036854775808, -9223372036854775808, 9007199254740993, 4294967296, 1e-7, 0.1, 2.5e-300, 123456789.125})
		}
		return float64(rapid.IntRange(-1000, 1000).Draw(t, "jn"))
	case 2:
		return rapid.Bool().Draw(t, "jb")
	case 3:
		return nil
	case 4:
		return 1.5
	case 5:
		return "[INFO] not a prefix"
	case 6:
		return []any{c10GenJSONValue(t, depth+1), c10GenJSONValue(t, depth+1)}
	default:
		return map[string]any{"n": c10GenJSONValue(t, depth+1)}
	}
}

func c10GenLine(t *rapid.T, buf int) c10Line {
	eff := buf
	if eff == 0 {
		eff = 64 * 1024
	}
	if eff < 16 {
		eff = 16
	}
	var l c10Line
	kind := weighted(t, "kind", 14, 14, 6, 16, 12, 8, 12, 6, 6, 6)
	switch kind {
	case 0: // plain text
		l.Kind = "text"
		l.Data = c10GenText(t, "txt", 40)
	case 1: // [LEVEL] prefixed
		l.Kind = "prefixed"
		p := oneOf(t, "pfx", []string{"[TRACE]", "[DEBUG]", "[INFO]", "[WARN]", "[ERROR]", "[FATAL]", "[info]", " [INFO]", "[INFO", "[WARN] "})
		l.Data = append([]byte(p), c10GenText(t, "ptxt", 30)...)
	case 2: // panic trace start
		l.Kind = "panic"
		l.Data = append([]byte("panic: "), c10GenText(t, "panictxt", 20)...)
	case 3: // valid hclog JSON
		l.Kind = "hclog"
		m := map[string]any{"@message": rapid.StringMatching(`[a-z \[\]A-Z]{0,20}`).Draw(t, "msg")}
		if !pct(t, "nolevel", 10) {
			m["@level"] = oneOf(t, "lvl", []string{"trace", "debug", "info", "warn", "error", "INFO", " warn ", "fatal", ""})
		}
		if pct(t, "ts", 70) {
			m["@timestamp"] = "2026-01-02T15:04:05.000000Z"
		}
		for i, n := 0, uniform(t, "nkv", 4); i < n; i++ {
			key := oneOf(t, "key", []string{"a", "b", "key", "timestamp", "@module", "x y", ""})
			m[key] = c10GenJSONValue(t, 0)
		}
		b, _ := json.Marshal(m)
		l.Data = b
	case 4: // hclog-ish JSON with wrong field types / bad timestamp
		l.Kind = "badjson"
		m := map[string]any{"@message": "m", "@level": "info"}
		switch uniform(t, "badwhat", 6) {
		case 0:
			m["@message"] = c10GenJSONValue(t, 0)
		case 1:
			m["@level"] = oneOf(t, "badlvl", []any{5.0, nil, true, []any{"info"}, map[string]any{}})
		case 2:
			m["@timestamp"] = oneOf(t, "badts", []any{5.0, nil, "yesterday", "", true, "2026-01-02 15:04:05"})
		case 3:
			m["@message"] = 5.0
		case 4:
			m["@message"] = nil
			m["@level"] = nil
		case 5:
			m["@timestamp"] = 1790973928.0
		}
		b, _ := json.Marshal(m)
		l.Data = b
	case 5: // non-object JSON
		l.Kind = "nonobject"
		l.Data = []byte(oneOf(t, "nonobj", []string{"[1,2]", "5", "null", `"s"`, "true", "{}", "[]", `{"a":`, `{"@message":"x"} trailing`, " {\"@level\":\"error\",\"@message\":\"lead\"}"}))
	case 6: // around the buffer size
		l.Kind = "boundary"
		n := eff + oneOf(t, "delta", []int{-3, -2, -1, 0, 1, 2, 17})
		if pct(t, "triple", 25) {
			n = 3*eff + uniform(t, "tripled", 3)
		}
		if n < 0 {
			n = 0
		}
		if eff > 4096 && !pct(t, "hugeok", 20) {
			n = 100 + uniform(t, "n", 100) // keep most default-buffer cases small
		}
		l.Data = bytes.Repeat([]byte("L"), n)
		if n > 8 && pct(t, "pfxlong", 30) {
			copy(l.Data, "[WARN] ")
		}
		if n > 8 && pct(t, "jsonlong", 20) {
			l.Data = append([]byte(`{"@level":"error","@message":"`), append(bytes.Repeat([]byte("j"), n), []byte(`"}`)...)...)
		}
	case 7: // trace continuation lines
		l.Kind = "traceline"
		l.Data = []byte(oneOf(t, "tl", []string{"goroutine 1 [running]:", "main.main()", "\t/tmp/x.go:12 +0x1d", "exit status 2", ""}))
	case 8: // empty / blank
		l.Kind = "blank"
		l.Data = []byte(oneOf(t, "blank", []string{"", " ", "\t", "\r", "\x00"}))
	case 9: // binary
		l.Kind = "binary"
		l.Data = bytes.ReplaceAll(rapid.SliceOfN(rapid.Byte(), 0, 40).Draw(t, "bin"), []byte("\n"), []byte("\x01"))
	}
	l.Term = "\n"
	if pct(t, "crlf", 15) {
		l.Term = "\r\n"
	}
	return l
}

func c10Gen(t *rapid.T) any {
	c := &c10Case{}
	c.Buf = oneOf(t, "buf", []int{0, 0, 16, 17, 32, 64, 100, 512})
	n := rapid.IntRange(0, 12).Draw(t, "nlines")
	for i := 0; i < n; i++ {
		c.Stderr = append(c.Stderr, c10GenLine(t, c.Buf))
	}
	if n > 0 && pct(t, "nofinalnl", 20) {
		c.Stderr[n-1].Term = ""
	}
	switch weighted(t, "stdout", 40, 25, 15, 10, 10) {
	case 1:
		c.StdoutLines = 1 + uniform(t, "sol", 20)
		c.StdoutLineLen = uniform(t, "soll", 200)
	case 2:
		c.StdoutLines = 1 + uniform(t, "sol", 3)
		c.StdoutLineLen = oneOf(t, "solong", []int{4096, 65535, 65536, 65537, 70000, 200000})
	case 3:
		c.StdoutLines = 1
		c.StdoutLineLen = oneOf(t, "sonl", []int{1, 1000, 66000, 300000})
		c.StdoutNoNL = true
	case 4:
		c.StdoutLines = 200 + uniform(t, "somany", 2000)
		c.StdoutLineLen = 80
	}
	c.StdoutFirst = rapid.Bool().Draw(t, "stdoutfirst")
	return c
}

// c10RefLevel is the reference level function of the statement.
type c10State struct {
	inPanic bool
	// unknown: the statement does not say whether a panic trace is still open
	unknown bool
}

type c10Expect struct {
	levels   []hclog.Level // acceptable levels
	msgs     []string      // acceptable messages
	kv       map[string]any
	weak     bool // only "some record" is demanded
	isJSONOK bool
}

func c10ParseObject(line []byte) (map[string]any, bool) {
	var raw map[string]any
	if err := json.Unmarshal(line, &raw); err != nil {
		return nil, false
	}
	return raw, true
}

func (s *c10State) expect(line []byte) c10Expect {
	str := string(line)
	if raw, ok := c10ParseObject(line); ok {
		// JSON object (or null): hclog record if the special fields are well typed
		wasPanic := s.inPanic
		wellTyped := true
		msg, level := "", ""
		if v, ok := raw["@message"]; ok {
			if sv, ok := v.(string); ok {
				msg = sv
			} else {
				wellTyped = false
			}
		}
		if v, ok := raw["@level"]; ok {
			if sv, ok := v.(string); ok {
				level = sv
			} else {
				wellTyped = false
			}
		}
		if v, ok := raw["@timestamp"]; ok {
			sv, ok := v.(string)
			if !ok {
				wellTyped = false
			} else if _, err := time.Parse("2006-01-02T15:04:05.000000Z07:00", sv); err != nil {
				wellTyped = false
			}
		}
		if !wellTyped {
			// the statement lists these as inputs that must not crash the host;
			// what record they produce is not specified beyond "a record"
			s.unknown = true
			return c10Expect{weak: true}
		}
		s.inPanic = false
		s.unknown = false
		lv := hclog.LevelFromString(level)
		if lv == hclog.NoLevel {
			// no usable level: falls back to debug; message is the line (or its @message)
			e := c10Expect{levels: []hclog.Level{hclog.Debug}, msgs: []string{str, msg}}
			if wasPanic {
				e.levels = append(e.levels, hclog.Error)
			}
			return e
		}
		kv := map[string]any{}
		for k, v := range raw {
			if k == "@message" || k == "@level" || k == "@timestamp" {
				continue
			}
			kv[k] = v
		}
		return c10Expect{levels: []hclog.Level{lv}, msgs: []string{msg}, kv: kv, isJSONOK: true}
	}
	for pfx, lv := range map[string]hclog.Level{"[TRACE]": hclog.Trace, "[DEBUG]": hclog.Debug, "[INFO]": hclog.Info, "[WARN]": hclog.Warn, "[ERROR]": hclog.Error} {
		if strings.HasPrefix(str, pfx) {
			s.inPanic = false
			s.unknown = false
			return c10Expect{levels: []hclog.Level{lv}, msgs: []string{str}}
		}
	}
	if strings.HasPrefix(str, "panic:") {
		s.inPanic = true
		s.unknown = false
		return c10Expect{levels: []hclog.Level{hclog.Error}, msgs: []string{str}}
	}
	if s.unknown {
		return c10Expect{levels: []hclog.Level{hclog.Debug, hclog.Error}, msgs: []string{str}}
	}
	if s.inPanic {
		return c10Expect{levels: []hclog.Level{hclog.Error}, msgs: []string{str}}
	}
	return c10Expect{levels: []hclog.Level{hclog.Debug}, msgs: []string{str}}
}

func stripCR(b []byte) []byte {
	if len(b) > 0 && b[len(b)-1] == '\r' {
		return b[:len(b)-1]
	}
	return b
}

func c10Run(ci any) (out Outcome) {
	c := ci.(*c10Case)
	eff := c.Buf
	if eff == 0 {
		eff = 64 * 1024
	}
	if eff < 16 {
		eff = 16
	}
	// the script: handshake, then stdout and stderr traffic
	var errBytes []byte
	for _, l := range c.Stderr {
		errBytes = append(errBytes, l.Data...)
		errBytes = append(errBytes, l.Term...)
		out.label("line:%s", l.Kind)
	}
	var outBytes []byte
	for i := 0; i < c.StdoutLines; i++ {
		outBytes = append(outBytes, bytes.Repeat([]byte{'o'}, c.StdoutLineLen)...)
		if !c.StdoutNoNL {
			outBytes = append(outBytes, '\n')
		}
	}
	steps := []FakeStep{{Op: "out", Data: []byte("1|1|tcp|127.0.0.1:1|netrpc\n")}}
	so := FakeStep{Op: "out", Data: outBytes}
	se := FakeStep{Op: "err", Data: errBytes}
	if c.StdoutFirst {
		steps = append(steps, so, se)
	} else {
		steps = append(steps, se, so)
	}
	sr := newScriptRunner(FakeSpec{Steps: steps})
	copyBuf := &safeBuf{}
	lg := newRecLogger()
	cl := plugin.NewClient(&plugin.ClientConfig{
		HandshakeConfig:     plugin.HandshakeConfig{ProtocolVersion: 1, MagicCookieKey: defaultCookieKey, MagicCookieValue: defaultCookieValue},
		Plugins:             plugin.PluginSet{},
		RunnerFunc:          func(hclog.Logger, *exec.Cmd, string) (runner.Runner, error) { return sr, nil },
		StartTimeout:        10 * time.Second,
		Logger:              lg,
		Stderr:              copyBuf,
		PluginLogBufferSize: c.Buf,
	})
	killed := false
	defer func() {
		if !killed {
			sr.Kill(nil)
			killBounded(cl, 15*time.Second)
		}
	}()
	var serr error
	if _, ok := within(20*time.Second, func() { _, serr = cl.Start() }); !ok {
		out.Slow = "Start did not return within 20 s"
		return
	}
	if serr != nil {
		out.violate("Start failed on a valid handshake line: %v", serr)
		return
	}
	// (c) liveness: the writer finishes, i.e. the host kept consuming both pipes
	select {
	case <-sr.scriptDone:
	case <-time.After(10 * time.Second):
		out.NonTrivial = true
		out.Slow = fmt.Sprintf("the plugin's writes (stdout %d bytes in lines of %d, stderr %d bytes) were still blocked 10 s after the handshake: the host stopped consuming", len(outBytes), c.StdoutLineLen, len(errBytes))
		return
	}
	// plugin exits; Kill waits for the reader goroutines, so everything is delivered afterwards
	sr.exit()
	killed = true
	if _, ok := killBounded(cl, 15*time.Second); !ok {
		out.Slow = "Kill did not return within 15 s after the plugin exited"
		return
	}

	// (a) copy: the lines received by ClientConfig.Stderr equal the input's lines
	inLines := bytes.Split(errBytes, []byte("\n"))
	if len(inLines) > 0 && len(inLines[len(inLines)-1]) == 0 {
		inLines = inLines[:len(inLines)-1]
	}
	got := copyBuf.Bytes()
	gotLines := bytes.Split(got, []byte("\n"))
	if len(gotLines) > 0 && len(gotLines[len(gotLines)-1]) == 0 {
		gotLines = gotLines[:len(gotLines)-1]
	}
	if len(inLines) != len(gotLines) {
		out.violate("stderr copy has %d lines, the plugin wrote %d lines; wrote %q, copy %q", len(gotLines), len(inLines), clip(errBytes), clip(got))
		return
	}
	for i := range inLines {
		if !bytes.Equal(inLines[i], gotLines[i]) && !bytes.Equal(stripCR(inLines[i]), gotLines[i]) {
			out.violate("stderr copy line %d differs: wrote %q, copy %q", i, clip(inLines[i]), clip(gotLines[i]))
			return
		}
	}

	// (b) records
	var recs []LogRec
	for _, r := range lg.records() {
		if r.Name == "scripted" {
			recs = append(recs, r)
		}
	}
	nontrivial := len(outBytes) > 64*1024
	for _, raw := range inLines {
		line := stripCR(raw)
		if _, ok := c10ParseObject(line); ok {
			nontrivial = true
		}
		if len(line) >= eff-2 {
			nontrivial = true
		}
	}
	// Match the record sequence against the line sequence. A line that (with its
	// newline) fits the buffer is one record; a longer one arrives as debug chunks
	// concatenating to the line, possibly closed by an empty chunk; within 2 bytes
	// of the boundary either reading is accepted.
	deepest, deepMsg := -1, ""
	fail := func(i int, format string, a ...any) {
		if i > deepest {
			deepest, deepMsg = i, fmt.Sprintf(format, a...)
		}
	}
	var match func(i, ri int, st c10State) bool
	checkSingle := func(i, ri int, st *c10State) bool {
		raw := inLines[i]
		line := stripCR(raw)
		if ri >= len(recs) {
			fail(i, "no log record for stderr line %d %q (%d records in total)", i, clip(line), len(recs))
			return false
		}
		exp := st.expect(line)
		r := recs[ri]
		if exp.weak {
			return true
		}
		okLevel := false
		for _, lv := range exp.levels {
			if r.Level == lv {
				okLevel = true
			}
		}
		if !okLevel {
			fail(i, "stderr line %d %q logged at level %v, expected %v", i, clip(line), r.Level, exp.levels)
			return false
		}
		okMsg := false
		for _, m := range exp.msgs {
			if r.Msg == m || r.Msg == string(raw) {
				okMsg = true
			}
		}
		if !okMsg {
			fail(i, "stderr line %d %q logged with message %q, expected one of %q", i, clip(line), clip([]byte(r.Msg)), exp.msgs)
			return false
		}
		if exp.isJSONOK {
			for k, v := range exp.kv {
				found := false
				for j := 0; j+1 < len(r.Args); j += 2 {
					if r.Args[j] == k && c10SameJSONValue(r.Args[j+1], v) {
						found = true
					}
				}
				if !found {
					fail(i, "stderr line %d %q: field %q=%v missing from the record's arguments %v", i, clip(line), k, v, r.Args)
					return false
				}
			}
		}
		return true
	}
	match = func(i, ri int, st c10State) bool {
		if i == len(inLines) {
			if ri != len(recs) {
				fail(i, "%d extra log records after the last stderr line; first extra: %v %q", len(recs)-ri, recs[ri].Level, clip([]byte(recs[ri].Msg)))
				return false
			}
			return true
		}
		raw := inLines[i]
		line := stripCR(raw)
		total := len(raw) + 1
		if total <= eff+2 {
			s2 := st
			if checkSingle(i, ri, &s2) && match(i+1, ri+1, s2) {
				return true
			}
		}
		if total > eff-2 {
			// debug chunks concatenating to the line; a trailing CR may come as a chunk of its own
			// (bufio holds it back in case a LF follows) or be dropped as part of CRLF
			s2 := st
			if s2.inPanic {
				s2.unknown = true // the statement is silent on whether a trace continues after an over-long line
			}
			var acc []byte
			rj := ri
			for len(acc) < len(raw) || rj == ri {
				if rj >= len(recs) {
					fail(i, "records for over-long stderr line %d end early: have %q of %q", i, clip(acc), clip(line))
					return false
				}
				r := recs[rj]
				rj++
				if r.Level != hclog.Debug {
					fail(i, "chunk of over-long stderr line %d %q logged at level %v, expected debug", i, clip(line), r.Level)
					return false
				}
				acc = append(acc, r.Msg...)
				if bytes.Equal(acc, line) || bytes.Equal(acc, raw) {
					if match(i+1, rj, s2) {
						return true
					}
					// an empty closing chunk may follow
					if rj < len(recs) && recs[rj].Msg == "" && recs[rj].Level == hclog.Debug && match(i+1, rj+1, s2) {
						return true
					}
				}
				if !bytes.HasPrefix(raw, acc) {
					break
				}
			}
			fail(i, "records of over-long stderr line %d concatenate to %q, the line is %q", i, clip(acc), clip(raw))
			return false
		}
		return false
	}
	if !match(0, 0, c10State{}) {
		out.NonTrivial = true
		out.violate("%s", deepMsg)
		return
	}
	out.NonTrivial = nontrivial
	out.label("buf:%d", c.Buf)
	if len(outBytes) > 64*1024 {
		out.label("stdout:>64KiB")
	}
	if c.StdoutLineLen > 65535 {
		out.label("stdout:line>64KiB")
	}
	return
}

func clip(b []byte) string {
	if len(b) > 160 {
		return string(b[:80]) + "...(" + fmt.Sprint(len(b)) + " bytes)..." + string(b[len(b)-40:])
	}
	return string(b)
}

// c10SameJSONValue compares a logged field value with the value on the line as JSON values, so the
// Go representation the library picks for a number (float64, json.Number) does not matter.
func c10SameJSONValue(got, want any) bool {
	if reflect.DeepEqual(got, want) {
		return true
	}
	norm := func(v any) (any, bool) {
		b, err := json.Marshal(v)
		if err != nil {
			return nil, false
		}
		var x any
		if json.Unmarshal(b, &x) != nil {
			return nil, false
		}
		return x, true
	}
	g, ok1 := norm(got)
	w, ok2 := norm(want)
	return ok1 && ok2 && reflect.DeepEqual(g, w)
}

var propC10 = register(&Prop{
	ID:  "C10",
	Gen: c10Gen,
	New: func() any { return &c10Case{} },
	Run: c10Run,
	Iso: true,
	Rule: "rapid draws a log buffer size (default,16,17,32,64,100,512), 0-12 stderr lines from classes {text, [LEVEL]-prefixed incl. near-misses, panic: trace start, trace lines, " +
		"valid hclog JSON with typed extra fields, hclog JSON with wrong-typed @message/@level/@timestamp, non-object JSON, lengths buf-3..buf+17 and 3*buf, blank, binary}, LF/CRLF, optional missing final newline, " +
		"and a post-handshake stdout stream (none / short lines / lines of 4 KiB..200 KB / no newline at all / thousands of lines). Executed in an isolated child host through an in-process scripted runner (io.Pipe). " +
		"Oracle: (a) line-sequence equality of ClientConfig.Stderr with the input (CRLF==LF), (b) per line one record at the reference level with the line's message and JSON fields, over-long lines as debug chunks concatenating to the line, " +
		"(c) all plugin writes complete within 10 s (host keeps consuming), (d) host process alive. Non-trivial: a JSON line, a line >= buffer size, or > 64 KiB of stdout.",
	Assumptions: []string{"io.Pipe writes complete only when consumed, so writer completion == host kept reading", "CRLF and LF line ends are equivalent in the copy", "lines within 2 bytes of the buffer size may be delivered whole or chunked"},
})
