package props

import (
	"context"
	"crypto/tls"
	"fmt"
	"net"
	"net/rpc"
	"os"
	"path/filepath"
	"sort"
	"strings"
	"sync"
	"sync/atomic"
	"time"

	plugin "github.com/hashicorp/go-plugin"
	"github.com/hashicorp/yamux"
	"google.golang.org/grpc"
	"google.golang.org/grpc/codes"
	"google.golang.org/grpc/credentials"
	"google.golang.org/grpc/credentials/insecure"
	"google.golang.org/grpc/health/grpc_health_v1"
	"google.golang.org/grpc/status"
	"google.golang.org/protobuf/types/known/wrapperspb"
	"pgregory.net/rapid"
)

// C12 — with AutoMTLS every plugin connection is mutually authenticated.

type c12Case struct {
	Proto    string `json:"proto"`    // netrpc | grpc | grpcmux
	Path     string `json:"path"`     // main | plugin_brokered | host_brokered
	Cred     string `json:"cred"`     // plain_proto | plain_random | tls_nocert | tls_selfsigned | tls_samename
	TLSMax   int    `json:"tls_max"`  // 0 default | 12 | 13
	SNI      string `json:"sni"`      // server name the intruder sends
	Impostor string `json:"impostor"` // "" | tls_other_cert | plaintext | nocert : the plugin itself is an impostor (nocert: a real, working plugin that ignores AutoMTLS, announces no certificate and serves without TLS)
	Junk     []byte `json:"junk"`     // bytes for plain_random
}

var c12Creds = []string{"plain_proto", "plain_random", "tls_nocert", "tls_selfsigned", "tls_samename", "tls_sysroot"}

// A certificate that the machine's trust store vouches for is still "any other certificate": the
// harness publishes its own root as the only system root (SSL_CERT_FILE / SSL_CERT_DIR, for this
// process and for the plugins it starts) and lets the intruder present it.
var (
	c12SysOnce sync.Once
	c12SysCert tls.Certificate
	c12SysEnv  []string
)

func c12Sysroot() (tls.Certificate, []string) {
	c12SysOnce.Do(func() {
		certPEM, keyPEM, err := genCertPEM("localhost")
		if err != nil {
			panic(err)
		}
		dir := scratchDir()
		file := filepath.Join(dir, "sysroot.pem")
		empty := filepath.Join(dir, "no-cert-dir")
		os.MkdirAll(empty, 0o755)
		os.WriteFile(file, certPEM, 0o644)
		c12SysCert, _ = tls.X509KeyPair(certPEM, keyPEM)
		c12SysEnv = []string{"SSL_CERT_FILE=" + file, "SSL_CERT_DIR=" + empty}
		os.Setenv("SSL_CERT_FILE", file)
		os.Setenv("SSL_CERT_DIR", empty)
	})
	return c12SysCert, c12SysEnv
}

func c12Gen(t *rapid.T) any {
	c := &c12Case{}
	c.Proto = oneOf(t, "proto", []string{"netrpc", "grpc", "grpc", "grpcmux"})
	c.Path = "main"
	if c.Proto == "grpc" {
		c.Path = oneOf(t, "path", []string{"main", "plugin_brokered", "host_brokered"})
	}
	c.Cred = oneOf(t, "cred", c12Creds)
	c.TLSMax = oneOf(t, "tlsmax", []int{0, 12, 13})
	c.SNI = oneOf(t, "sni", []string{"localhost", "", "example.com", "plugin"})
	if pct(t, "impostor", 15) {
		c.Impostor = oneOf(t, "impostorkind", []string{"tls_other_cert", "plaintext", "nocert", "nocert", "rogue_plugin_listener:samename", "rogue_plugin_listener:plaintext", "rogue_host_listener:samename", "rogue_host_listener:plaintext"})
		if c.Proto == "grpcmux" || strings.HasPrefix(c.Impostor, "rogue_") {
			c.Proto = "grpc"
		}
		c.Path = "main"
	}
	c.Junk = rapid.SliceOfN(rapid.Byte(), 1, 64).Draw(t, "junk")
	return c
}

func c12Enum() (int, func(i int) any) {
	type cell struct{ proto, path string }
	cells := []cell{{"netrpc", "main"}, {"grpc", "main"}, {"grpc", "plugin_brokered"}, {"grpc", "host_brokered"}, {"grpcmux", "main"}}
	n := len(cells)*len(c12Creds) + 11
	return n, func(i int) any {
		if i >= len(cells)*len(c12Creds) {
			j := i - len(cells)*len(c12Creds)
			if j >= 7 {
				return &c12Case{Proto: "grpc", Path: "main", Cred: "tls_nocert", Impostor: []string{"rogue_plugin_listener:samename", "rogue_plugin_listener:plaintext", "rogue_host_listener:samename", "rogue_host_listener:plaintext"}[j-7], SNI: "localhost", Junk: []byte("x")}
			}
			if j >= 4 {
				return &c12Case{Proto: []string{"netrpc", "grpc", "grpcmux"}[j-4], Path: "main", Cred: "tls_nocert", Impostor: "nocert", SNI: "localhost", Junk: []byte("x")}
			}
			return &c12Case{Proto: []string{"netrpc", "grpc"}[j%2], Path: "main", Cred: "tls_nocert", Impostor: []string{"tls_other_cert", "plaintext"}[j/2], SNI: "localhost", Junk: []byte("x")}
		}
		cl := cells[i/len(c12Creds)]
		return &c12Case{Proto: cl.proto, Path: cl.path, Cred: c12Creds[i%len(c12Creds)], SNI: "localhost", Junk: []byte("\x16\x03\x01garbage\n")}
	}
}

// intruder credentials
func (c *c12Case) intruderTLS() *tls.Config {
	cfg := &tls.Config{InsecureSkipVerify: true, ServerName: c.SNI}
	switch c.TLSMax {
	case 12:
		cfg.MaxVersion = tls.VersionTLS12
	case 13:
		cfg.MinVersion = tls.VersionTLS13
	}
	switch c.Cred {
	case "tls_selfsigned":
		certPEM, keyPEM, _ := genCertPEM("intruder.example")
		pair, _ := tls.X509KeyPair(certPEM, keyPEM)
		cfg.Certificates = []tls.Certificate{pair}
	case "tls_samename":
		// same subject and SAN as go-plugin's generated certificates, another key
		certPEM, keyPEM, _ := genCertPEM("localhost")
		pair, _ := tls.X509KeyPair(certPEM, keyPEM)
		cfg.Certificates = []tls.Certificate{pair}
	case "tls_sysroot":
		// a certificate trusted by the system store of both processes
		pair, _ := c12Sysroot()
		cfg.Certificates = []tls.Certificate{pair}
		// present it whatever acceptable-CA list the server sends
		cfg.GetClientCertificate = func(*tls.CertificateRequestInfo) (*tls.Certificate, error) { return &pair, nil }
	}
	return cfg
}

func grpcAnswered(err error) bool {
	if err == nil {
		return true
	}
	switch status.Code(err) {
	case codes.Unimplemented, codes.NotFound, codes.InvalidArgument, codes.FailedPrecondition, codes.OK:
		return true // the server processed the request
	}
	return false
}

// intrudeGRPC tries to get any RPC answered over a fresh connection.
func (c *c12Case) intrudeGRPC(network, addr string, services []string) (answered string) {
	var creds grpc.DialOption
	if strings.HasPrefix(c.Cred, "plain") {
		creds = grpc.WithTransportCredentials(insecure.NewCredentials())
	} else {
		creds = grpc.WithTransportCredentials(credentials.NewTLS(c.intruderTLS()))
	}
	cc, err := grpc.Dial("intruder", creds, grpc.WithContextDialer(func(ctx context.Context, _ string) (net.Conn, error) {
		return (&net.Dialer{}).DialContext(ctx, network, addr)
	}))
	if err != nil {
		return ""
	}
	defer cc.Close()
	ctx, cancel := context.WithTimeout(context.Background(), 2500*time.Millisecond)
	defer cancel()
	if _, err := grpc_health_v1.NewHealthClient(cc).Check(ctx, &grpc_health_v1.HealthCheckRequest{Service: "plugin"}); grpcAnswered(err) {
		return fmt.Sprintf("health check answered (%v)", err)
	}
	for _, svc := range services {
		ctx2, cancel2 := context.WithTimeout(context.Background(), 1500*time.Millisecond)
		out := new(wrapperspb.BytesValue)
		err := cc.Invoke(ctx2, "/"+svc+"/Do", wrapperspb.Bytes([]byte(`{"op":"tag"}`)), out)
		cancel2()
		if grpcAnswered(err) {
			return fmt.Sprintf("%s/Do answered (%v)", svc, err)
		}
	}
	return ""
}

// intrudeNetRPC speaks yamux + net/rpc over a fresh connection.
func (c *c12Case) intrudeNetRPC(network, addr string) (answered string) {
	conn, err := net.DialTimeout(network, addr, 3*time.Second)
	if err != nil {
		return ""
	}
	defer conn.Close()
	conn.SetDeadline(time.Now().Add(4 * time.Second))
	if !strings.HasPrefix(c.Cred, "plain") {
		tc := tls.Client(conn, c.intruderTLS())
		if err := tc.Handshake(); err != nil {
			return ""
		}
		conn = tc
	}
	ycfg := yamux.DefaultConfig()
	ycfg.LogOutput = nil
	ycfg.Logger = nil
	ycfg.LogOutput = discardWriter{}
	sess, err := yamux.Client(conn, ycfg)
	if err != nil {
		return ""
	}
	defer sess.Close()
	stream, err := sess.Open()
	if err != nil {
		return ""
	}
	rc := rpc.NewClient(stream)
	defer rc.Close()
	var empty struct{}
	call := rc.Go("Control.Ping", true, &empty, make(chan *rpc.Call, 1))
	select {
	case <-call.Done:
		if call.Error == nil {
			return "Control.Ping answered"
		}
	case <-time.After(2500 * time.Millisecond):
	}
	return ""
}

type discardWriter struct{}

func (discardWriter) Write(p []byte) (int, error) { return len(p), nil }

func (c *c12Case) intrudeRandom(network, addr string) (answered string) {
	conn, err := net.DialTimeout(network, addr, 3*time.Second)
	if err != nil {
		return ""
	}
	defer conn.Close()
	conn.SetDeadline(time.Now().Add(1500 * time.Millisecond))
	conn.Write(c.Junk)
	buf := make([]byte, 256)
	n, _ := conn.Read(buf)
	// a TLS alert or nothing is fine; an RPC-looking answer is not: with TLS required, anything the
	// server says before a handshake is a TLS record (first byte 0x15 alert / 0x16 handshake)
	if n > 0 && buf[0] != 0x15 && buf[0] != 0x16 {
		return fmt.Sprintf("server answered random plaintext with %q", buf[:min(n, 40)])
	}
	return ""
}

func listSockets(dir string) []string {
	ents, _ := os.ReadDir(dir)
	var s []string
	for _, e := range ents {
		if e.Type()&os.ModeSocket != 0 {
			s = append(s, filepath.Join(dir, e.Name()))
		}
	}
	sort.Strings(s)
	return s
}

func newSockets(before, after []string) []string {
	m := map[string]bool{}
	for _, b := range before {
		m[b] = true
	}
	var n []string
	for _, a := range after {
		if !m[a] {
			n = append(n, a)
		}
	}
	return n
}

var c12Seq int64

func c12Run(ci any) (out Outcome) {
	c := ci.(*c12Case)
	out.label("proto:%s", c.Proto)
	out.label("path:%s", c.Path)
	out.label("cred:%s", c.Cred)
	_, sysEnv := c12Sysroot() // before anything in this process loads the system roots
	caseDir := filepath.Join(scratchDir(), fmt.Sprintf("c12-%d", atomic.AddInt64(&c12Seq, 1)))
	os.MkdirAll(caseDir, 0o755)
	defer os.RemoveAll(caseDir)
	set := SetSpec{Kind: "dual"}
	cc := HostCfg{LegacyVersion: 1, Legacy: &set, Allowed: []string{"netrpc", "grpc"}, TLS: "auto", Mux: c.Proto == "grpcmux", SkipHostEnv: true}.clientConfig()

	if strings.HasPrefix(c.Impostor, "rogue_") {
		// The pair is genuine, but what answers behind one brokered id presents another certificate
		// (same subject and SAN, other key) or none: the dialling side must refuse it.
		out.label("impostor:%s", c.Impostor)
		out.NonTrivial = true
		kind := c.Impostor[strings.IndexByte(c.Impostor, ':')+1:]
		cc.Cmd = pluginCmd(PluginSpec{LegacyVersion: 1, Legacy: &set, GRPCServer: true})
		cc.Cmd.Env = []string{"TMPDIR=" + caseDir}
		cl := plugin.NewClient(cc)
		defer killBounded(cl, 20*time.Second)
		h, _, err := dispense(cl, "p")
		if err != nil {
			out.violate("legitimate AutoMTLS pair could not connect: %v", err)
			return
		}
		gh := h.(*grpcHandle)
		id := freshBrokerID()
		var answered string
		if _, ok := within(40*time.Second, func() {
			if strings.HasPrefix(c.Impostor, "rogue_plugin_listener") {
				if _, err := h.DoT(Cmd{Op: "broker_accept_rogue", ID: id, S: kind}, 20*time.Second); err != nil {
					return
				}
				if r, err := c14HostDial(h, id); err == nil {
					answered = fmt.Sprintf("the host's brokered dial of id %d was answered (%+v) by a server presenting %s instead of the plugin's certificate", id, r.Tag, kind)
				}
			} else {
				ln, err := gh.broker.Accept(id)
				if err != nil {
					return
				}
				srv := rogueServer(kind, &impl{tag: Tag{Pid: os.Getpid(), Broker: id, Side: "host-rogue", Proto: "grpc"}})
				go srv.Serve(ln)
				defer srv.Stop()
				if r, err := h.DoT(Cmd{Op: "broker_dial", ID: id}, 30*time.Second); err == nil {
					answered = fmt.Sprintf("the plugin's brokered dial of id %d was answered (%s) by a server presenting %s instead of the host's certificate", id, r.B, kind)
				}
			}
		}); !ok {
			out.Slow = "the rogue brokered establishment neither failed nor succeeded within 40 s"
			return
		}
		if answered != "" {
			out.violate("%s", answered)
			return
		}
		// the genuine pair still brokers in both directions
		if step, err := c14BrokerBothWays(h); err != nil {
			out.violate("after a refused rogue listener the genuine pair no longer works (%s): %v", step, firstLine(err))
		}
		return
	}
	if c.Impostor != "" {
		out.label("impostor:%s", c.Impostor)
		op := "listen_tls"
		if c.Impostor == "plaintext" {
			op = "listen_plain_impostor"
		}
		proto := "netrpc"
		if c.Proto != "netrpc" {
			proto = "grpc"
		}
		marker := filepath.Join(caseDir, "handshakes")
		cc.Cmd = fakeCmd(FakeSpec{Steps: []FakeStep{{Op: op, Path: marker}, {Op: "out", Data: []byte("1|1|tcp|{ADDR}|" + proto + "|{CERT}\n")}, {Op: "forever"}}})
		if c.Impostor == "nocert" {
			cc.Cmd = pluginCmd(PluginSpec{LegacyVersion: 1, Legacy: &set, GRPCServer: c.Proto != "netrpc", IgnoreClientCert: true})
		}
		cc.Cmd.Env = []string{"TMPDIR=" + caseDir}
		cl := plugin.NewClient(cc)
		defer killBounded(cl, 20*time.Second)
		out.NonTrivial = true
		var worked string
		_, ok := within(30*time.Second, func() {
			h, cp, err := dispense(cl, "p")
			if err != nil {
				return
			}
			if _, err := h.DoT(Cmd{Op: "tag"}, 5*time.Second); err == nil {
				worked = "a call on the dispensed plugin succeeded"
				return
			}
			if err := cp.Ping(); err == nil {
				worked = "Ping succeeded"
			}
		})
		if !ok {
			out.Slow = "first use of an impostor plugin neither failed nor succeeded within 30 s"
			return
		}
		if worked != "" {
			if c.Impostor == "nocert" {
				out.violate("AutoMTLS host, plugin that announces no certificate and serves without TLS: %s (the connection is not authenticated)", worked)
				return
			}
			out.violate("the host talked to a plugin that announced one certificate and served %s: %s", c.Impostor, worked)
			return
		}
		if b, err := os.ReadFile(marker); err == nil && len(b) > 0 {
			out.violate("the host completed a TLS handshake with a plugin whose certificate is not the one announced in the handshake line (%s)", strings.TrimSpace(string(b)))
		}
		return
	}

	cc.Cmd = pluginCmd(PluginSpec{LegacyVersion: 1, Legacy: &set, GRPCServer: c.Proto != "netrpc"})
	cc.Cmd.Env = append([]string{"TMPDIR=" + caseDir}, sysEnv...)
	cl := plugin.NewClient(cc)
	defer killBounded(cl, 20*time.Second)
	h, cp, err := dispense(cl, "p")
	if err != nil {
		out.violate("legitimate AutoMTLS pair could not connect: %v", err)
		return
	}
	if _, err := h.DoT(Cmd{Op: "tag"}, 20*time.Second); err != nil {
		out.violate("legitimate AutoMTLS pair: call failed: %v", err)
		return
	}
	mainAddr, _ := cl.Start()
	network, addr := mainAddr.Network(), mainAddr.String()
	services := []string{"verif.Harness.p"}
	var hostImpl *impl
	var id uint32
	switch c.Path {
	case "plugin_brokered":
		before := listSockets(caseDir)
		id = freshBrokerID()
		if _, err := h.DoT(Cmd{Op: "broker_accept", ID: id}, 20*time.Second); err != nil {
			out.violate("broker_accept failed: %v", err)
			return
		}
		var fresh []string
		waitFor(5*time.Second, func() bool { fresh = newSockets(before, listSockets(caseDir)); return len(fresh) > 0 })
		if len(fresh) == 0 {
			out.Slow = "the plugin's brokered listener did not appear within 5 s"
			return
		}
		network, addr = "unix", fresh[0]
		services = []string{"verif.Brokered", "verif.Harness.p"}
	case "host_brokered":
		hostDir := os.TempDir()
		before := listSockets(hostDir)
		gh := h.(*grpcHandle)
		id = freshBrokerID()
		hostImpl = &impl{tag: Tag{Pid: os.Getpid(), Broker: id, Side: "host", Proto: "grpc"}}
		go gh.broker.AcceptAndServe(id, func(opts []grpc.ServerOption) *grpc.Server {
			s := grpc.NewServer(opts...)
			registerHarness(s, "verif.Brokered", hostImpl)
			return s
		})
		var fresh []string
		waitFor(5*time.Second, func() bool { fresh = newSockets(before, listSockets(hostDir)); return len(fresh) > 0 })
		if len(fresh) == 0 {
			out.Slow = "the host's brokered listener did not appear within 5 s"
			return
		}
		network, addr = "unix", fresh[0]
		services = []string{"verif.Brokered"}
	}
	r0, err := h.DoT(Cmd{Op: "count"}, 20*time.Second)
	if err != nil {
		out.violate("count call failed: %v", err)
		return
	}

	// --- the intruder
	if conn, err := net.DialTimeout(network, addr, 3*time.Second); err == nil {
		conn.Close()
		out.NonTrivial = true
	} else {
		out.label("intruder-could-not-connect")
	}
	answered := ""
	switch {
	case c.Cred == "plain_random":
		answered = c.intrudeRandom(network, addr)
	case c.Proto == "netrpc":
		answered = c.intrudeNetRPC(network, addr)
	default:
		answered = c.intrudeGRPC(network, addr, services)
	}
	if answered != "" {
		out.violate("an intruder (%s, max TLS %d, SNI %q) on the %s listener of a %s AutoMTLS plugin got served: %s", c.Cred, c.TLSMax, c.SNI, c.Path, c.Proto, answered)
		return
	}
	// the plugin's request counter did not move (only our own count call)
	r1, err := h.DoT(Cmd{Op: "count"}, 20*time.Second)
	if err != nil {
		out.violate("the legitimate host can no longer call the plugin after the intrusion attempt: %v", err)
		return
	}
	if r1.N != r0.N+1 {
		out.violate("the plugin served %d requests during the intrusion attempt that the host did not send", r1.N-r0.N-1)
		return
	}
	if hostImpl != nil && atomic.LoadInt64(&hostImpl.calls) != 0 {
		out.violate("the host's brokered server answered %d intruder requests", hostImpl.calls)
		return
	}
	// the legitimate pair still works, on the attacked path too
	if err := cp.Ping(); err != nil {
		out.violate("Ping fails after the intrusion attempt: %v", err)
		return
	}
	switch c.Path {
	case "plugin_brokered":
		r, err := c14HostDial(h, id)
		if err != nil || r.Tag.Broker != id {
			out.violate("the legitimate host cannot use the plugin's brokered listener after the intrusion attempt: %v %+v", err, r.Tag)
		}
	case "host_brokered":
		rr, err := h.DoT(Cmd{Op: "broker_dial", ID: id}, 30*time.Second)
		if err != nil || !strings.Contains(string(rr.B), `"side":"host"`) {
			out.violate("the legitimate plugin cannot use the host's brokered listener after the intrusion attempt: %v %s", err, rr.B)
		}
	}
	return
}

var propC12 = register(&Prop{
	ID:   "C12",
	Gen:  c12Gen,
	New:  func() any { return &c12Case{} },
	Run:  c12Run,
	Enum: c12Enum,
	Rule: "rapid draws a connection path (main listener; for gRPC also the plugin-side and host-side brokered listeners; net/rpc, gRPC, gRPC+mux), an intruder credential class (plaintext speaking the right protocol, plaintext random bytes, TLS without certificate, TLS with a fresh self-signed certificate, TLS with a certificate of identical subject/SAN but another key), TLS version bounds and SNI; " +
		"or makes the plugin an impostor that announces one certificate and serves another / plaintext, or a working plugin that ignores AutoMTLS (no certificate announced, no TLS), or a genuine pair in which the server behind one brokered id (either direction) presents a same-name certificate with another key / no TLS. The intruder learns addresses from the handshake and by watching the per-case socket directories. " +
		"Oracle: no intruder RPC is answered (health check, plugin service, brokered service, Control.Ping), the plugin's request counter and the host-side server's counter do not move, the legitimate pair still works on the attacked path; against an impostor no host call succeeds. The thorough tier also enumerates the 25-cell path x credential matrix and the impostors completely. Non-trivial: the intruder completed a connect to a live listener of the case.",
	Assumptions: []string{"with gRPC+mux the plugin accepts a single connection on its socket, so brokered paths have no listener of their own; with net/rpc brokered connections are yamux streams inside the authenticated connection"},
})
