package props

import (
	"crypto/x509"
	"encoding/pem"
	"fmt"
	"os"
	"os/exec"
	"path/filepath"
	"sort"
	"strconv"
	"strings"
	"sync/atomic"
	"time"

	hclog "github.com/hashicorp/go-hclog"
	plugin "github.com/hashicorp/go-plugin"
	"github.com/hashicorp/go-plugin/runner"
	"pgregory.net/rapid"
)

// C17 — plugin launch environment and stdin are determined by the client config.

type c17Case struct {
	LegacyVersion uint     `json:"legacy_version"`
	LegacySet     bool     `json:"legacy_set"`
	Versions      []int    `json:"versions"`
	MinPort       uint     `json:"min_port"`
	MaxPort       uint     `json:"max_port"`
	AutoMTLS      bool     `json:"auto_mtls"`
	Mux           bool     `json:"mux"`
	SkipHostEnv   bool     `json:"skip_host_env"`
	Group         bool     `json:"group"`    // UnixSocketConfig.Group = current gid
	TempDir       bool     `json:"temp_dir"` // UnixSocketConfig.TempDir set
	CallerEnv     []string `json:"caller_env"`
	HostEnv       []string `json:"host_env"` // the host process's own (ambient) environment additions
	Mode          string   `json:"mode"`     // capture (env-capturing RunnerFunc) | twin (real plugin via exec.Cmd)
	Reuse         bool     `json:"reuse"`    // capture mode: a second client is built from the same *ClientConfig (a plugin restart)
}

var c17AmbientCert string

func c17Cert() string {
	if c17AmbientCert == "" {
		p, _, err := genCertPEM("localhost")
		if err != nil {
			panic(err)
		}
		c17AmbientCert = string(p)
	}
	return c17AmbientCert
}

func c17Gen(t *rapid.T) any {
	c := &c17Case{}
	switch weighted(t, "verstyle", 35, 45, 20) {
	case 0:
		c.LegacySet = true
		c.LegacyVersion = uint(rapid.IntRange(0, 6).Draw(t, "legacy"))
	case 1:
		c.Versions = rapid.SliceOfNDistinct(rapid.IntRange(0, 6), 1, 4, rapid.ID[int]).Draw(t, "versions")
	case 2:
		c.LegacySet = true
		c.LegacyVersion = uint(rapid.IntRange(0, 6).Draw(t, "legacy"))
		c.Versions = rapid.SliceOfNDistinct(rapid.IntRange(0, 6), 1, 3, rapid.ID[int]).Draw(t, "versions")
	}
	if pct(t, "ports", 45) {
		c.MinPort = uint(rapid.IntRange(1024, 30000).Draw(t, "minport"))
		c.MaxPort = c.MinPort + uint(rapid.IntRange(0, 2000).Draw(t, "portspan"))
		// a caller may give only one bound (the other stays 0): the plugin must be told exactly that,
		// the defaults apply only when both are unset
		switch weighted(t, "portshape", 60, 20, 20) {
		case 1:
			c.MinPort = 0
		case 2:
			c.MaxPort = 0
		}
	}
	c.AutoMTLS = pct(t, "automtls", 30)
	c.Mux = pct(t, "mux", 35)
	c.SkipHostEnv = pct(t, "skiphostenv", 30)
	c.Group = pct(t, "group", 25)
	c.TempDir = pct(t, "tempdir", 40)
	for i, n := 0, uniform(t, "ncaller", 3); i < n; i++ {
		c.CallerEnv = append(c.CallerEnv, fmt.Sprintf("CALLER_%s=%s", rapid.StringMatching(`[A-Z]{1,4}`).Draw(t, "ck"), rapid.StringMatching(`[a-z0-9]{0,6}`).Draw(t, "cv")))
	}
	// ambient variables: a host that is itself a plugin carries these from its own launch
	amb := map[string][]string{
		"PLUGIN_CLIENT_CERT":       {"CERT"},
		"PLUGIN_MULTIPLEX_GRPC":    {"true", "false", "1", "junk"},
		"PLUGIN_PROTOCOL_VERSIONS": {"9", "1,2,3", "x"},
		"PLUGIN_MIN_PORT":          {"40000"},
		"PLUGIN_MAX_PORT":          {"40010"},
		defaultCookieKey:           {"some-other-cookie-value"},
	}
	keys := make([]string, 0, len(amb))
	for k := range amb {
		keys = append(keys, k)
	}
	sort.Strings(keys)
	if !pct(t, "noambient", 25) {
		for _, k := range keys {
			if pct(t, "amb", 45) {
				c.HostEnv = append(c.HostEnv, k+"="+oneOf(t, "ambv", amb[k]))
			}
		}
	}
	for i, n := 0, uniform(t, "nother", 4); i < n; i++ {
		c.HostEnv = append(c.HostEnv, fmt.Sprintf("HOSTVAR_%s=%s", rapid.StringMatching(`[A-Z]{1,4}`).Draw(t, "hk"), rapid.StringMatching(`[a-z0-9 ]{0,8}`).Draw(t, "hv")))
	}
	c.Mode = []string{"capture", "twin"}[weighted(t, "mode", 65, 35)]
	c.Reuse = c.Mode == "capture" && pct(t, "reuse", 35)
	return c
}

func (c *c17Case) offered() []int {
	m := map[int]bool{}
	for _, v := range c.Versions {
		m[v] = true
	}
	if c.LegacySet {
		m[int(c.LegacyVersion)] = true
	}
	var vs []int
	for v := range m {
		vs = append(vs, v)
	}
	sort.Ints(vs)
	return vs
}

func c17IsoEnv(ci any) []string {
	c := ci.(*c17Case)
	env := []string{"PATH=" + os.Getenv("PATH"), "HOME=" + os.Getenv("HOME"), "TMPDIR=" + os.Getenv("TMPDIR")}
	for _, e := range c.HostEnv {
		if strings.HasPrefix(e, "PLUGIN_CLIENT_CERT=CERT") {
			e = "PLUGIN_CLIENT_CERT=" + c17Cert()
		}
		env = append(env, e)
	}
	return env
}

// effective environment: the last duplicate wins, as os/exec and the kernel do
func effectiveEnv(env []string) map[string]string {
	m := map[string]string{}
	for _, e := range env {
		if i := strings.IndexByte(e, '='); i > 0 {
			m[e[:i]] = e[i+1:]
		}
	}
	return m
}

var c17Seq int64

func c17Run(ci any) (out Outcome) {
	c := ci.(*c17Case)
	caseDir := filepath.Join(scratchDir(), fmt.Sprintf("c17-%d-%d", os.Getpid(), atomic.AddInt64(&c17Seq, 1)))
	os.MkdirAll(caseDir, 0o755)
	defer os.RemoveAll(caseDir)
	ambient := false
	for _, e := range c.HostEnv {
		if strings.HasPrefix(e, "PLUGIN_") || strings.HasPrefix(e, defaultCookieKey+"=") {
			ambient = true
		}
	}
	out.NonTrivial = ambient || c.SkipHostEnv || c.AutoMTLS || c.Mux
	out.label("mode:%s", c.Mode)
	if ambient {
		out.label("ambient-PLUGIN-vars")
	}
	if c.SkipHostEnv {
		out.label("skiphostenv")
	}

	kind := "dual"
	cc := &plugin.ClientConfig{
		HandshakeConfig:     plugin.HandshakeConfig{ProtocolVersion: c.LegacyVersion, MagicCookieKey: defaultCookieKey, MagicCookieValue: defaultCookieValue},
		AllowedProtocols:    []plugin.Protocol{plugin.ProtocolNetRPC, plugin.ProtocolGRPC},
		Logger:              nullLogger(),
		StartTimeout:        10 * time.Second,
		MinPort:             c.MinPort,
		MaxPort:             c.MaxPort,
		AutoMTLS:            c.AutoMTLS,
		GRPCBrokerMultiplex: c.Mux,
		SkipHostEnv:         c.SkipHostEnv,
	}
	if c.LegacySet {
		cc.Plugins = buildSet(SetSpec{Kind: kind}, int(c.LegacyVersion), "host")
	}
	if c.Versions != nil {
		cc.VersionedPlugins = map[int]plugin.PluginSet{}
		for _, v := range c.Versions {
			cc.VersionedPlugins[v] = buildSet(SetSpec{Kind: kind}, v, "host")
		}
	}
	usc := &plugin.UnixSocketConfig{}
	if c.Group {
		usc.Group = strconv.Itoa(os.Getgid())
	}
	if c.TempDir {
		usc.TempDir = caseDir
	}
	if c.Group || c.TempDir {
		cc.UnixSocketConfig = usc
	}

	var eff map[string]string
	var stdinOK bool
	var sockDirArg string
	switch c.Mode {
	case "capture":
		var sr *scriptRunner
		cc.RunnerFunc = func(_ hclog.Logger, hc *exec.Cmd, dir string) (runner.Runner, error) {
			eff = effectiveEnv(hc.Env)
			stdinOK = hc.Stdin == os.Stdin
			sockDirArg = dir
			sr = newScriptRunner(FakeSpec{Steps: []FakeStep{{Op: "exit"}}})
			return sr, nil
		}
		cl := plugin.NewClient(cc)
		within(20*time.Second, func() { cl.Start() })
		if sr != nil {
			sr.Kill(nil)
		}
		killBounded(cl, 20*time.Second)
		if eff == nil {
			out.violate("RunnerFunc was not called")
			return
		}
		if c.Reuse {
			// the same configuration object serves a second client (the host restarts its plugin): judge
			// the first launch now, then let the second launch's environment go through the checks below
			firstEff, firstStdin, firstDir := eff, stdinOK, sockDirArg
			eff, sr = nil, nil
			cl2 := plugin.NewClient(cc)
			within(20*time.Second, func() { cl2.Start() })
			if sr != nil {
				sr.Kill(nil)
			}
			killBounded(cl2, 20*time.Second)
			if eff == nil {
				out.violate("RunnerFunc was not called for the second client built from the same configuration")
				return
			}
			out.label("config-reused")
			secondEff, secondStdin, secondDir := eff, stdinOK, sockDirArg
			if v := c17Judge(c, caseDir, firstEff, firstDir, firstStdin); v != "" {
				out.violate("%s", v)
				return
			}
			if v := c17Judge(c, caseDir, secondEff, secondDir, secondStdin); v != "" {
				out.violate("second launch from the same ClientConfig: %s", v)
			}
			return
		}
	case "twin":
		// a real plugin launched with exec.Cmd; it reports the environment it actually got and must
		// negotiate exactly the mode this client asked for
		vers := map[int]SetSpec{}
		for _, v := range c.offered() {
			vers[v] = SetSpec{Kind: kind}
		}
		ps := PluginSpec{Versioned: vers, GRPCServer: c.Mux || c.AutoMTLS}
		cmd := pluginCmd(ps)
		cmd.Env = append([]string{}, c.CallerEnv...)
		if c.SkipHostEnv {
			cmd.Env = append(cmd.Env, "TMPDIR="+caseDir, "PATH="+os.Getenv("PATH"))
		}
		cc.Cmd = cmd
		cl := plugin.NewClient(cc)
		defer killBounded(cl, 20*time.Second)
		var h Handle
		var derr error
		if _, ok := within(40*time.Second, func() { h, _, derr = dispense(cl, "p") }); !ok {
			out.Slow = "start+dispense did not return within 40 s"
			return
		}
		if derr != nil {
			out.violate("a plugin launched from a host with ambient environment %v did not negotiate the mode this client asked for (AutoMTLS=%v mux=%v): %v", c.HostEnv, c.AutoMTLS, c.Mux, firstLine(derr))
			return
		}
		r, err := h.DoT(Cmd{Op: "env"}, 20*time.Second)
		if err != nil {
			out.violate("env call failed: %v", err)
			return
		}
		eff = effectiveEnv(r.List)
		stdinOK = true // not observable from outside the process; covered by capture mode
		wantProto := "netrpc"
		if ps.GRPCServer {
			wantProto = "grpc"
		}
		if string(cl.Protocol()) != wantProto {
			out.violate("protocol %q, expected %q", cl.Protocol(), wantProto)
			return
		}
	}

	if v := c17Judge(c, caseDir, eff, sockDirArg, stdinOK); v != "" {
		out.violate("%s", v)
	}
	return
}

// c17Judge compares the effective environment of one launch with the configuration.
func c17Judge(c *c17Case, caseDir string, eff map[string]string, sockDirArg string, stdinOK bool) string {
	// --- the effective environment against the configuration
	if eff[defaultCookieKey] != defaultCookieValue {
		return fmt.Sprintf("magic cookie in the plugin's environment is %q, the client's is %q", eff[defaultCookieKey], defaultCookieValue)
	}
	var got []int
	for _, s := range strings.Split(eff["PLUGIN_PROTOCOL_VERSIONS"], ",") {
		v, err := strconv.Atoi(s)
		if err != nil {
			return fmt.Sprintf("PLUGIN_PROTOCOL_VERSIONS=%q is not a list of integers", eff["PLUGIN_PROTOCOL_VERSIONS"])
		}
		got = append(got, v)
	}
	sort.Ints(got)
	if fmt.Sprint(got) != fmt.Sprint(c.offered()) {
		return fmt.Sprintf("PLUGIN_PROTOCOL_VERSIONS=%v, the client offers %v", got, c.offered())
	}
	wantMin, wantMax := c.MinPort, c.MaxPort
	if wantMin == 0 && wantMax == 0 {
		wantMin, wantMax = 10000, 25000
	}
	if eff["PLUGIN_MIN_PORT"] != fmt.Sprint(wantMin) || eff["PLUGIN_MAX_PORT"] != fmt.Sprint(wantMax) {
		return fmt.Sprintf("port range %s-%s, configured %d-%d", eff["PLUGIN_MIN_PORT"], eff["PLUGIN_MAX_PORT"], wantMin, wantMax)
	}
	cert := eff["PLUGIN_CLIENT_CERT"]
	if c.AutoMTLS {
		blk, _ := pem.Decode([]byte(cert))
		if blk == nil {
			return fmt.Sprintf("AutoMTLS is on but PLUGIN_CLIENT_CERT is %q", clip([]byte(cert)))
		}
		if _, err := x509.ParseCertificate(blk.Bytes); err != nil {
			return fmt.Sprintf("AutoMTLS is on but PLUGIN_CLIENT_CERT does not parse: %v", err)
		}
		if amb := os.Getenv("PLUGIN_CLIENT_CERT"); amb != "" && cert == amb {
			return fmt.Sprintf("PLUGIN_CLIENT_CERT is the host's own ambient certificate, not this client's")
		}
	} else if cert != "" {
		return fmt.Sprintf("AutoMTLS is off but the plugin receives PLUGIN_CLIENT_CERT (%d bytes; host environment %v)", len(cert), envKeys(c.HostEnv))
	}
	muxVal := eff["PLUGIN_MULTIPLEX_GRPC"]
	if c.Mux {
		if b, err := strconv.ParseBool(muxVal); err != nil || !b {
			return fmt.Sprintf("multiplexing requested but PLUGIN_MULTIPLEX_GRPC=%q", muxVal)
		}
	} else if muxVal != "" {
		return fmt.Sprintf("multiplexing not requested but the plugin receives PLUGIN_MULTIPLEX_GRPC=%q (host environment %v)", muxVal, envKeys(c.HostEnv))
	}
	if c.Group && eff["PLUGIN_UNIX_SOCKET_GROUP"] != strconv.Itoa(os.Getgid()) {
		return fmt.Sprintf("socket group configured but PLUGIN_UNIX_SOCKET_GROUP=%q", eff["PLUGIN_UNIX_SOCKET_GROUP"])
	}
	if c.Mode == "capture" {
		if eff["PLUGIN_UNIX_SOCKET_DIR"] == "" || eff["PLUGIN_UNIX_SOCKET_DIR"] != sockDirArg {
			return fmt.Sprintf("PLUGIN_UNIX_SOCKET_DIR=%q, runner was given %q", eff["PLUGIN_UNIX_SOCKET_DIR"], sockDirArg)
		}
		if c.TempDir && filepath.Dir(sockDirArg) != caseDir {
			return fmt.Sprintf("socket directory %q is not inside the configured TempDir %q", sockDirArg, caseDir)
		}
		if !stdinOK {
			return fmt.Sprintf("the command's Stdin is not the host's stdin")
		}
	}
	// host variables
	host := effectiveEnv(c.HostEnv)
	for k, v := range host {
		if strings.HasPrefix(k, "PLUGIN_") || k == defaultCookieKey {
			continue
		}
		gv, present := eff[k]
		if c.SkipHostEnv && present {
			return fmt.Sprintf("SkipHostEnv is set but host variable %s=%q reached the plugin", k, gv)
		}
		if !c.SkipHostEnv && (!present || gv != v) {
			return fmt.Sprintf("host variable %s=%q did not reach the plugin (got %q, present=%v)", k, v, gv, present)
		}
	}
	if c.Mode == "twin" {
		for _, e := range c.CallerEnv {
			i := strings.IndexByte(e, '=')
			if eff[e[:i]] != effectiveEnv(c.CallerEnv)[e[:i]] {
				return fmt.Sprintf("caller-supplied variable %s did not reach the plugin", e[:i])
			}
		}
	}
	return ""
}

func envKeys(env []string) []string {
	var ks []string
	for _, e := range env {
		if i := strings.IndexByte(e, '='); i > 0 {
			v := e[i+1:]
			if len(v) > 12 {
				v = v[:12] + "..."
			}
			ks = append(ks, e[:i]+"="+v)
		}
	}
	return ks
}

var propC17 = register(&Prop{
	ID:         "C17",
	Gen:        c17Gen,
	New:        func() any { return &c17Case{} },
	Run:        c17Run,
	IsoFresh:   true,
	IsoEnv:     c17IsoEnv,
	IsoTimeout: 90 * time.Second,
	Rule: "rapid draws a client configuration (legacy/versioned versions, port range, AutoMTLS, mux, SkipHostEnv, socket group, TempDir, caller-supplied cmd.Env) and the host process's own environment " +
		"(ambient PLUGIN_CLIENT_CERT / PLUGIN_MULTIPLEX_GRPC / PLUGIN_PROTOCOL_VERSIONS / port / cookie variables as a host that is itself a plugin carries, plus random other variables). " +
		"Each case runs in a fresh child host whose environment is exactly the generated one; an env-capturing RunnerFunc records cmd.Env and cmd.Stdin, or (twin) a real plugin launched with exec.Cmd reports the environment it got and must negotiate the requested mode. " +
		"Oracle on the effective environment (last duplicate wins): cookie, version list set-equal to the offer, port range, certificate exactly when AutoMTLS, mux flag exactly when requested, socket group/dir when configured, stdin, SkipHostEnv hides every host variable, otherwise host variables pass. " +
		"Non-trivial: ambient PLUGIN_* present, or SkipHostEnv, or AutoMTLS/mux on.",
	Assumptions: []string{"'exactly when' is read as: the variable's effective value is non-empty iff the feature is requested", "the caller's own cmd.Env never contains go-plugin control variables"},
})
