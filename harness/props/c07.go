package props

import (
	"fmt"
	"google.golang.org/grpc"
	"os"
	"os/exec"
	"path/filepath"
	"sync"
	"sync/atomic"
	"time"

	hclog "github.com/hashicorp/go-hclog"
	plugin "github.com/hashicorp/go-plugin"
	"github.com/hashicorp/go-plugin/runner"
	"pgregory.net/rapid"
)

// C07 — GRPCBroker (no multiplexing) connects Dial(id) only to the server accepted on that id.

type c07Est struct {
	ID          uint32 `json:"id"`
	HostAccepts bool   `json:"host_accepts"` // host accepts and the plugin dials; otherwise the reverse
	AcceptAt    int    `json:"accept_at_ms"`
	DialAt      int    `json:"dial_at_ms"`
}

type c07Case struct {
	Mode      string   `json:"mode"` // ip (in-process pair) | sub (real plugin subprocess)
	TLS       string   `json:"tls"`  // sub only: "" | auto | static
	Translate bool     `json:"translate"`
	Ests      []c07Est `json:"ests"`
	// Burst > 0: in addition, this many establishments whose accept and dial are issued at the same
	// instant (ids 1000.., alternating direction): the connection info reaches the dialling side just
	// as Dial starts to wait for it
	Burst int `json:"burst,omitempty"`
	// SharedOpts: both ends dial with DialWithOptions and one shared options slice each (in-process mode)
	SharedOpts bool `json:"shared_opts,omitempty"`
}

func c07GenEsts(t *rapid.T, maxK int) []c07Est {
	k := 1 + uniform(t, "k", maxK)
	class := weighted(t, "gapclass", 70, 20, 10) // all gaps < 50 ms | < 500 ms | one gap up to 3.5 s
	long := uniform(t, "longidx", k)
	var ests []c07Est
	for i := 0; i < k; i++ {
		e := c07Est{ID: uint32(i + 1), HostAccepts: rapid.Bool().Draw(t, "hostaccepts")}
		base := uniform(t, "base", 30)
		gap := uniform(t, "gap", 50)
		switch {
		case class == 1:
			gap = uniform(t, "gapm", 500)
		case class == 2 && i == long:
			gap = 500 + uniform(t, "gapl", 3001)
		}
		if rapid.Bool().Draw(t, "dialfirst") {
			e.DialAt, e.AcceptAt = base, base+gap
		} else {
			e.AcceptAt, e.DialAt = base, base+gap
		}
		ests = append(ests, e)
	}
	return ests
}

func c07Gen(t *rapid.T) any {
	c := &c07Case{Mode: "ip"}
	c.Ests = c07GenEsts(t, 6)
	if pct(t, "burst", 20) {
		c.Burst = 50 + uniform(t, "burstn", 250)
	}
	c.SharedOpts = pct(t, "sharedopts", 40)
	return c
}

func c07SubGen(t *rapid.T) any {
	c := &c07Case{Mode: "sub"}
	c.TLS = []string{"", "auto", "static"}[weighted(t, "tls", 34, 33, 33)]
	c.Translate = rapid.Bool().Draw(t, "translate")
	c.Ests = c07GenEsts(t, 4)
	return c
}

// runEsts executes the establishments concurrently and judges them.
func runEsts(out *Outcome, host, plug brokerEnd, ests []c07Est) {
	type res struct {
		e   c07Est
		tag Tag
		err error
	}
	results := make([]res, len(ests))
	var wg sync.WaitGroup
	for i, e := range ests {
		wg.Add(1)
		go func(i int, e c07Est) {
			defer wg.Done()
			acc, dia := plug, host
			if e.HostAccepts {
				acc, dia = host, plug
			}
			acc.accept(e.ID, time.Duration(e.AcceptAt)*time.Millisecond)
			tag, err := dia.dial(e.ID, time.Duration(e.DialAt)*time.Millisecond)
			results[i] = res{e, tag, err}
		}(i, e)
	}
	if _, ok := within(60*time.Second, wg.Wait); !ok {
		out.Slow = "brokered establishments did not all finish within 60 s"
		return
	}
	for _, r := range results {
		wantSide := "plugin"
		if r.e.HostAccepts {
			wantSide = "host"
		}
		if r.err != nil {
			if isTimeoutErr(r.err) {
				out.Slow = fmt.Sprintf("id %d: %v", r.e.ID, r.err)
				return
			}
			out.violate("id %d (%s accepts at %d ms, dial at %d ms, %d ids in flight): %v", r.e.ID, wantSide, r.e.AcceptAt, r.e.DialAt, len(ests), r.err)
			return
		}
		if r.tag.Broker != r.e.ID || r.tag.Side != wantSide {
			out.violate("the connection dialled for id %d was answered by the server accepted on id %d on the %s side (expected id %d on the %s side)", r.e.ID, r.tag.Broker, r.tag.Side, r.e.ID, wantSide)
			return
		}
	}
}

func c07NonTrivial(ests []c07Est) bool {
	if len(ests) >= 2 {
		return true
	}
	for _, e := range ests {
		if e.DialAt < e.AcceptAt || !e.HostAccepts || e.DialAt-e.AcceptAt >= 500 {
			return true
		}
	}
	return false
}

func c07Labels(out *Outcome, ests []c07Est) {
	for _, e := range ests {
		if e.DialAt < e.AcceptAt {
			out.label("dial-first")
		} else {
			out.label("accept-first")
		}
		if e.HostAccepts {
			out.label("host-accepts")
		} else {
			out.label("plugin-accepts")
		}
		g := e.DialAt - e.AcceptAt
		if g < 0 {
			g = -g
		}
		switch {
		case g >= 500:
			out.label("gap>=500ms")
		case g >= 50:
			out.label("gap>=50ms")
		}
	}
	out.label("ids:%d", len(ests))
}

func c07Run(ci any) (out Outcome) {
	c := ci.(*c07Case)
	c07Labels(&out, c.Ests)
	out.NonTrivial = c07NonTrivial(c.Ests)
	if c.Mode == "sub" {
		return c07RunSub(c, out)
	}
	p, err := newGRPCPair(false)
	if err != nil {
		out.violate("could not build the in-process gRPC pair: %v", err)
		return
	}
	host, plug := &localEnd{br: p.host, name: "host"}, &localEnd{br: p.plug, name: "plugin"}
	if c.SharedOpts {
		out.label("shared-dial-options")
		host.dialOpts = append(make([]grpc.DialOption, 0, 16), grpc.WithUserAgent("verif-host"))
		plug.dialOpts = append(make([]grpc.DialOption, 0, 16), grpc.WithUserAgent("verif-plugin"))
	}
	defer func() {
		host.cleanup()
		plug.cleanup()
		p.close()
	}()
	ests := c.Ests
	if c.Burst > 0 {
		out.label("burst")
		ests = append([]c07Est{}, c.Ests...)
		for i := 0; i < c.Burst; i++ {
			ests = append(ests, c07Est{ID: uint32(1000 + i), HostAccepts: i%2 == 0, AcceptAt: 1, DialAt: 1})
		}
	}
	runEsts(&out, host, plug, ests)
	return
}

var c07Seq int64

func c07RunSub(c *c07Case, out Outcome) Outcome {
	out.label("tls:%s", c.TLS)
	if c.Translate {
		out.label("translate")
	}
	caseDir := filepath.Join(scratchDir(), fmt.Sprintf("c07-%d", atomic.AddInt64(&c07Seq, 1)))
	os.MkdirAll(filepath.Join(caseDir, "socks"), 0o755)
	defer os.RemoveAll(caseDir)
	set := SetSpec{Kind: "grpc"}
	ps := PluginSpec{LegacyVersion: 1, Legacy: &set, GRPCServer: true}
	if c.TLS == "static" {
		ps.TLSCert, ps.TLSKey, _ = staticTLSFiles()
	}
	cc := HostCfg{LegacyVersion: 1, Legacy: &set, Allowed: []string{"grpc"}, TLS: c.TLS}.clientConfig()
	cc.UnixSocketConfig = &plugin.UnixSocketConfig{TempDir: caseDir}
	var er *execRunner
	cc.RunnerFunc = func(_ hclog.Logger, hc *exec.Cmd, _ string) (runner.Runner, error) {
		pc := pluginCmd(ps)
		pc.Env = append(os.Environ(), hc.Env...)
		r, err := newExecRunner(pc)
		if err != nil {
			return nil, err
		}
		if c.Translate {
			// the plugin runs in caseDir and names its sockets relative to it: a path the host
			// can only reach through PluginToHost
			pc.Dir = caseDir
			pc.Env = append(pc.Env, "PLUGIN_UNIX_SOCKET_DIR=socks")
			r.p2h = func(n, a string) (string, string, error) {
				if n == "unix" && !filepath.IsAbs(a) {
					return n, filepath.Join(caseDir, a), nil
				}
				return n, a, nil
			}
		}
		er = r
		return r, nil
	}
	cl := plugin.NewClient(cc)
	defer killBounded(cl, 20*time.Second)
	var h Handle
	var err error
	if _, ok := within(30*time.Second, func() { h, _, err = dispense(cl, "p") }); !ok {
		out.Slow = "start+dispense did not return within 30 s"
		return out
	}
	if err != nil {
		out.violate("could not start the plugin (tls %q, translate %v): %v", c.TLS, c.Translate, err)
		return out
	}
	gh := h.(*grpcHandle)
	host := &localEnd{br: gh.broker, name: "host"}
	defer host.cleanup()
	runEsts(&out, host, &remoteEnd{h: h}, c.Ests)
	if out.Violation == "" && out.Slow == "" && c.Translate {
		hostAccepts, plugAccepts := 0, 0
		for _, e := range c.Ests {
			if e.HostAccepts {
				hostAccepts++
			} else {
				plugAccepts++
			}
		}
		if int(atomic.LoadInt32(&er.h2pCalls)) < hostAccepts {
			out.violate("%d host-side accepts but HostToPlugin was called %d times: an address was sent to the plugin untranslated", hostAccepts, er.h2pCalls)
		}
		if int(atomic.LoadInt32(&er.p2hCalls)) < 1+plugAccepts {
			out.violate("%d plugin-side accepts but PluginToHost was called %d times: a plugin address was dialled untranslated", plugAccepts, er.p2hCalls)
		}
	}
	return out
}

const c07Rule = "rapid draws 1-6 (sub: 1-4) brokered establishments with distinct ids that run concurrently: direction (host accepts / plugin accepts), accept-first or dial-first, start offsets, gap class (70% all < 50 ms, 20% < 500 ms, 10% one gap up to 3.5 s). " +
	"Oracle: every Dial and first call succeeds (all gaps are inside the pending window) and the tag service reached through the connection dialled for id n answers 'accepted on id n on the accepting side'. Non-trivial: >= 2 ids in flight, or dial-first, or plugin-accepts, or gap >= 500 ms."

var propC07 = register(&Prop{
	ID: "C07", Gen: c07Gen, New: func() any { return &c07Case{} }, Run: c07Run,
	Rule: "in-process gRPC host/plugin pair (both brokers in hand): " + c07Rule,
})

var propC07Sub = register(&Prop{
	ID: "C07", Name: "C07Sub", Gen: c07SubGen, New: func() any { return &c07Case{} }, Run: c07Run,
	Rule:        "real plugin subprocess with TLS none/AutoMTLS/static and optionally a translating runner (the plugin names its sockets relative to its own working directory, so an untranslated address cannot be dialled by the host; translator call counts are checked too): " + c07Rule,
	Assumptions: []string{"ids are distinct per accept (documented precondition)"},
})
