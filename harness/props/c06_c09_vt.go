//go:build go1.25

package props

import (
	"fmt"
	"os"
	"time"

	"pgregory.net/rapid"
)

// C06 — MuxBroker connects Dial(id) only to Accept(id) (virtual time).
// C09 — brokers stay live: unmatched, duplicate or late peers cannot wedge them (net/rpc part, virtual time).

var vtGaps = []int{0, 0, 1, 1, 10, 100, 100, 1000, 2500, 4999}

// vtID: the i-th id of a case. Any uint32 the caller has not used yet is a valid broker id, not only
// the ones NextId hands out: mostly 1000+i, sometimes a value at the edges of the range (0 included).
// Small non-zero ids are left to the library itself (Dispense allocates 1, 2, ... on the same broker).
var vtEdgeIDs = []uint32{0, 1 << 16, 1 << 31, 0xFFFFFFFF, 0xFFFFFFFE, 1 << 24, 0x80000001, 0x7FFFFFFF}

func vtID(t *rapid.T, i int) uint32 {
	if pct(t, "edgeid", 25) {
		return vtEdgeIDs[i%len(vtEdgeIDs)]
	}
	return uint32(1000 + i)
}

func c06Gen(t *rapid.T) any {
	c := &vtCase{}
	k := 1 + uniform(t, "k", 8)
	for i := 0; i < k; i++ {
		op := vtOp{Kind: "pair", ID: vtID(t, i), HostDials: rapid.Bool().Draw(t, "hostdials")}
		base := uniform(t, "base", 50)
		gap := oneOf(t, "gap", vtGaps)
		if rapid.Bool().Draw(t, "dialfirst") {
			op.DialAt, op.AcceptAt = base, base+gap
		} else {
			op.AcceptAt, op.DialAt = base, base+gap
		}
		switch weighted(t, "size", 60, 30, 8, 2) {
		case 0:
			op.Up, op.Down = uniform(t, "up", 64), uniform(t, "down", 64)
		case 1:
			op.Up, op.Down = uniform(t, "up", 4096)*16, uniform(t, "down", 4096)*16
		case 2:
			op.Up, op.Down = 262144+uniform(t, "up", 4096), 262144-uniform(t, "down", 4096)
		case 3:
			op.Up, op.Down = 1<<20, 1<<20
		}
		// a connection that is still used well after it was established, with a slow reader
		if pct(t, "late-use", 15) {
			op.HoldMs = oneOf(t, "hold", []int{1000, 5500, 7000})
			op.ReadLagMs = oneOf(t, "lag", []int{1, 500, 3000})
			op.Down = 300000 + uniform(t, "bigdown", 4096)*200
		} else if pct(t, "accfirst", 30) {
			op.AccFirst = true
		}
		c.Ops = append(c.Ops, op)
	}
	nd := uniform(t, "ndispense", 7)
	for i := 0; i < nd; i++ {
		c.Ops = append(c.Ops, vtOp{Kind: "dispense", Name: fmt.Sprintf("p%d", i), DialAt: uniform(t, "dispat", 200), HostDials: true})
	}
	if pct(t, "hook", 20) {
		c.Ops[0].HookMs = oneOf(t, "hookms", []int{1, 50, 1000})
	}
	return c
}

func c06NonTrivial(c *vtCase) (bool, []string) {
	var labels []string
	host, plug, dialFirst, bigGap, pairs, disp := false, false, false, false, 0, 0
	for _, op := range c.Ops {
		switch op.Kind {
		case "pair":
			pairs++
			if op.HostDials {
				host = true
			} else {
				plug = true
			}
			if op.DialAt < op.AcceptAt {
				dialFirst = true
			}
			g := op.DialAt - op.AcceptAt
			if g < 0 {
				g = -g
			}
			if g >= 1000 {
				bigGap = true
			}
		case "dispense":
			disp++
		}
	}
	if dialFirst {
		labels = append(labels, "dial-first")
	}
	if bigGap {
		labels = append(labels, "gap>=1s")
	}
	if host && plug {
		labels = append(labels, "both-directions")
	}
	if disp > 0 {
		labels = append(labels, "with-dispense")
	}
	labels = append(labels, fmt.Sprintf("ids:%d", pairs))
	return (pairs >= 2 && host && plug) || dialFirst || bigGap, labels
}

func c06Run(ci any) (out Outcome) {
	c := ci.(*vtCase)
	nt, labels := c06NonTrivial(c)
	out.NonTrivial, out.Labels = nt, labels
	o := vtRun(c, os.Getenv("VERIF_REALTIME") != "", false, false)
	out.Violation, out.Slow = o.Violation, o.Slow
	return
}

func c09Gen(t *rapid.T) any {
	c := &vtCase{Fresh: true}
	n := 1 + uniform(t, "n", 6)
	for i := 0; i < n; i++ {
		op := vtOp{ID: vtID(t, i), HostDials: rapid.Bool().Draw(t, "hostdials")}
		base := uniform(t, "base", 2000)
		switch weighted(t, "kind", 22, 18, 30, 18, 12) {
		case 0:
			op.Kind, op.DialAt = "dial_only", base
		case 1:
			op.Kind, op.AcceptAt = "accept_only", base
		case 2: // two dials to one id, with or without an accept (possibly right at the expiry instant)
			op.Kind, op.DialAt = "dup_dial", base
			op.Dial2At = base + oneOf(t, "d2", []int{0, 1, 10, 1000, 4999, 5000, 5001})
			op.AcceptAt = -1
			if rapid.Bool().Draw(t, "withaccept") {
				op.AcceptAt = base + oneOf(t, "acc", []int{0, 1, 100, 4999, 5000, 5001, 6000})
			}
		case 3: // accept issued just as the parked connection expires
			op.Kind, op.DialAt = "late_pair", base
			op.AcceptAt = base + 5000 + oneOf(t, "late", []int{0, 0, 1, 2, 100})
		case 4: // a normal pair inside the window, concurrent with the rest
			op.Kind, op.DialAt, op.AcceptAt = "pair", base, base+oneOf(t, "gap", vtGaps)
			op.Up, op.Down = uniform(t, "up", 64), uniform(t, "down", 64)
		}
		if pct(t, "hook", 15) {
			op.HookMs = oneOf(t, "hookms", []int{1, 50, 1000})
		}
		c.Ops = append(c.Ops, op)
	}
	return c
}

func c09Run(ci any) (out Outcome) {
	c := ci.(*vtCase)
	unmatched := false
	for _, op := range c.Ops {
		out.label("op:%s", op.Kind)
		if op.Kind != "pair" {
			unmatched = true
		}
	}
	out.NonTrivial = unmatched
	realTime := os.Getenv("VERIF_REALTIME") != ""
	o := vtRun(c, realTime, true, true)
	out.Violation, out.Slow = o.Violation, o.Slow
	return
}

func vtHook(name string) {
	if name != "muxbroker.accept.taken" {
		return
	}
	vtHookMu.Lock()
	var d time.Duration
	for _, v := range vtHookDelay {
		if v > d {
			d = v
		}
	}
	vtHookMu.Unlock()
	if d > 0 {
		time.Sleep(d)
	}
}

var propC06VT = register(&Prop{
	ID: "C06", Name: "C06VT", Gen: c06Gen, New: func() any { return &vtCase{} }, Run: c06Run,
	Rule: "virtual time (testing/synctest, go1.26.8): one net/rpc host/plugin pair over net.Pipe per case; rapid draws 1-8 accept/dial pairs with distinct ids (1000+i or, a quarter of the time, edge values of the uint32 range incl. 0), either side dialling, accept-first or dial-first, gaps from {0,1,10,100,1000,2500,4999} ms (all inside the 5 s window), payloads from 0 B to 1 MiB each way with the dialling or (30%) the accepting end speaking first, " +
		"and 0-6 concurrent Dispense calls of distinctly named plugins; everything runs concurrently. Oracle: each dialer sends (id, nonce)+payload and each acceptor must read exactly its own id's token and bytes and vice versa (complete, in order), every accept and dial inside the window succeeds, each dispensed client is answered by the server object of the name it asked for. " +
		"Non-trivial: >= 2 ids outstanding in both directions, or a dial-first pair, or a gap >= 1 s.",
	Assumptions: []string{"virtual time: the broker's 5 s timers and all offsets are exact; yamux keeps a global timer pool, so one bubble spans the whole rapid run"},
})

var propC09VT = register(&Prop{
	ID: "C09", Name: "C09VT", Gen: c09Gen, New: func() any { return &vtCase{} }, Run: c09Run,
	Rule: "virtual time (testing/synctest): histories of 1-6 concurrent operations over {dial nobody accepts, accept nobody dials, two dials to one id with or without an accept (second dial / accept at offsets incl. 4999, 5000, 5001 ms), accept issued 5000+{0,1,2,100} ms after a parked dial, normal in-window pair}, optional delay at the point where Accept has taken a parked connection; " +
		"then 6 s later an accept/dial pair on a fresh id, then close and a goroutine-dump check. Oracle: unmatched calls fail within 5 s (+1 ms), every call of the history returns within 5 s of its start, never two successful dials for one accept, the fresh pair succeeds, no goroutine inside go-plugin/yamux remains 6 s after closing the client. " +
		"A wedge freezes virtual time: a wall-clock watchdog outside the bubble reports the stalled case, which counts only after the driver has reproduced it on the real clock over TCP (fresh pair not completing within 20 s). Non-trivial: the history contains at least one unmatched, duplicate or late operation (and reaches the fresh pair).",
	Assumptions: []string{"a virtual-time stall is only a candidate; real-time confirmation decides"},
})
