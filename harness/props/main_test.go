package props

import (
	hclog "github.com/hashicorp/go-hclog"
	"io"
	"log"
	"os"
	"testing"
)

// The test binary plays several roles: rapid driver (default), configurable
// plugin ("verif-plugin <spec>"), scripted fake plugin ("verif-fake <spec>"),
// and isolated child host (VERIF_ISO=<prop name>).
func TestMain(m *testing.M) {
	if len(os.Args) >= 3 {
		switch os.Args[1] {
		case "verif-plugin":
			pluginMain(os.Args[2])
			os.Exit(0)
		case "verif-fake":
			fakeMain(os.Args[2])
			os.Exit(0)
		}
	}
	if name := os.Getenv("VERIF_ISO"); name != "" {
		isoChildMain(name)
		os.Exit(0)
	}
	// the library logs accept errors etc. through the std logger; keep the test output readable
	log.SetOutput(io.Discard)
	hclog.DefaultOutput = io.Discard
	code := m.Run()
	if scratchPath != "" {
		os.RemoveAll(scratchPath)
	}
	os.Exit(code)
}
