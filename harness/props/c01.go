package props

import (
	"bytes"
	"crypto/x509"
	"encoding/base64"
	"encoding/pem"
	"fmt"
	"net"
	"os"
	"os/exec"
	"path/filepath"
	"sort"
	"strconv"
	"strings"
	"sync"
	"sync/atomic"
	"time"

	hclog "github.com/hashicorp/go-hclog"
	plugin "github.com/hashicorp/go-plugin"
	"github.com/hashicorp/go-plugin/runner"
	"pgregory.net/rapid"
)

// C01 — handshake line accepted only when well-formed; never crashes the host.

type c01Cfg struct {
	LegacyVersion uint     `json:"legacy_version"`
	LegacySet     bool     `json:"legacy_set"` // ClientConfig.Plugins non-nil
	Versions      []int    `json:"versions"`   // keys of VersionedPlugins (nil = field nil)
	Allowed       []string `json:"allowed"`    // nil = library default
	TLS           string   `json:"tls"`        // "" | static | auto
	Mux           bool     `json:"mux"`
}

type c01Case struct {
	Cfg  c01Cfg `json:"cfg"`
	Line []byte `json:"line"` // bytes before the terminator
	Term string `json:"term"` // nl | crlf | eof | hang | more
	// Alive: the fake plugin keeps running after the line (otherwise it exits)
	Alive bool `json:"alive"`
	// Launch: "" = in-process scripted runner; "cmd" = a real process started by the library's own
	// command runner (exec.Cmd), so its address translation is on the path as well
	Launch string `json:"launch,omitempty"`
}

func (c c01Cfg) offered() map[int]bool {
	m := map[int]bool{}
	for _, v := range c.Versions {
		m[v] = true
	}
	if c.LegacySet {
		m[int(c.LegacyVersion)] = true
	}
	return m
}

func (c c01Cfg) allowed() []string {
	if c.Allowed == nil {
		return []string{"netrpc"}
	}
	return c.Allowed
}

var c01CertOnce sync.Once
var c01CertB64 string

// c01Cert returns raw-std-base64 DER of a valid certificate.
func c01Cert() string {
	c01CertOnce.Do(func() {
		certPEM, _, err := genCertPEM("localhost")
		if err != nil {
			panic(err)
		}
		blk, _ := pem.Decode(certPEM)
		c01CertB64 = base64.RawStdEncoding.EncodeToString(blk.Bytes)
	})
	return c01CertB64
}

func c01GenCfg(t *rapid.T) c01Cfg {
	var c c01Cfg
	switch uniform(t, "verstyle", 10) {
	case 0, 1, 2: // legacy only
		c.LegacySet = true
		c.LegacyVersion = uint(rapid.IntRange(0, 6).Draw(t, "legacy"))
	case 3, 4, 5, 6: // versioned only
		c.Versions = rapid.SliceOfNDistinct(rapid.IntRange(0, 6), 1, 4, rapid.ID[int]).Draw(t, "versions")
	case 7, 8: // both
		c.LegacySet = true
		c.LegacyVersion = uint(rapid.IntRange(0, 6).Draw(t, "legacy"))
		c.Versions = rapid.SliceOfNDistinct(rapid.IntRange(0, 6), 1, 4, rapid.ID[int]).Draw(t, "versions")
	case 9: // unusual numbers
		c.Versions = rapid.SliceOfNDistinct(rapid.SampledFrom([]int{-1, 0, 7, 100, 2147483647}), 1, 3, rapid.ID[int]).Draw(t, "versions")
	}
	c.Allowed = [][]string{nil, {"netrpc"}, {"grpc"}, {"netrpc", "grpc"}, {"grpc", "netrpc"}, {"grpc", "foo"}, {}}[weighted(t, "allowed", 20, 15, 20, 20, 10, 10, 5)]
	c.TLS = []string{"", "static", "auto"}[weighted(t, "tls", 55, 37, 8)]
	c.Mux = pct(t, "mux", 35)
	return c
}

// hostile class lists per field
var (
	c01BadCore = []string{"0", "2", "+1", "01", "", "x", "1.0", " 1", "1 ", "99999999999999999999", "-1", "one"}
	c01BadApp  = []string{"", "x", "-2", "9", "3", "0", "+2", "02", " 2", "99999999999999999999", "2.0", "1e0"}
	c01BadNet  = []string{"", "udp", "TCP", "tcp4", "tcp6", "unixgram", "ip", "garbage", " tcp", "Unix"}
	c01BadTCP  = []string{"", "127.0.0.1", "127.0.0.1:99999", "127.0.0.1:-1", "nosuchhost.invalid:80", "localhost:1234", "127.0.0.1:nosuchservice",
		"[::1", "1.2.3.4.5:80", "/tmp/plugin123", "127.0.0.1:12 34", "::1:80", strings.Repeat("a", 300) + ":80"}
	c01OddUnix = []string{"", "relative/path", "@abstract", "/tmp/with space", strings.Repeat("/x", 200), "127.0.0.1:1234",
		"/tmp//plugin1", "/tmp/./plugin2", "/tmp/x/../plugin3", "/tmp/plugin4/", "./plugin5", "//tmp/plugin6"}
	c01BadProto = []string{"", "GRPC", "netrpc ", "foo", "http", "grpc\x00"}
	c01BadMux   = []string{"false", "0", "f", "F", "FALSE", "False", "", "yes", "no", "2", "truee", " true"}
	c01OkMux    = []string{"true", "1", "t", "T", "TRUE", "True"}
)

func c01BadCerts() []string {
	return []string{"extra", "abc", strings.Repeat("A", 50), strings.Repeat("A", 51), strings.Repeat("!", 60),
		base64.RawStdEncoding.EncodeToString([]byte(strings.Repeat("not a certificate ", 5))),
		base64.StdEncoding.EncodeToString(mustDecodeRaw(c01Cert())), // padded encoding of a valid cert
		"-----BEGIN CERTIFICATE-----" + c01Cert() + "-----END CERTIFICATE-----",
		c01Cert()[:len(c01Cert())-8]}
}

func c01GenLine(t *rapid.T, cfg c01Cfg) []byte {
	// shape of the line: 0 all fields canonical, 1 one hostile field, 2 several, 3 too few fields, 4 raw bytes
	shape := weighted(t, "shape", 28, 42, 17, 8, 5)
	if shape == 4 {
		return rapid.SliceOfN(rapid.Byte(), 0, 120).Draw(t, "raw")
	}
	offered := []int{}
	for v := range cfg.offered() {
		offered = append(offered, v)
	}
	sort.Ints(offered)
	nf := []int{4, 5, 6, 7, 7, 8}[uniform(t, "nfields", 6)]
	if shape == 3 {
		nf = uniform(t, "fewfields", 4)
	}
	// which fields are hostile
	bad := make([]bool, 8)
	switch shape {
	case 1:
		bad[uniform(t, "badfield", min(nf, 7))] = true
	case 2:
		for i := 0; i < 7; i++ {
			bad[i] = rapid.Bool().Draw(t, "bad")
		}
	}
	fields := make([]string, 0, 8)
	// core
	if bad[0] {
		fields = append(fields, oneOf(t, "core", c01BadCore))
	} else {
		fields = append(fields, "1")
	}
	// app version
	if bad[1] || len(offered) == 0 {
		fields = append(fields, oneOf(t, "app", c01BadApp))
	} else {
		fields = append(fields, strconv.Itoa(oneOf(t, "appv", offered)))
	}
	// network + address
	network := oneOf(t, "netc", []string{"tcp", "unix"})
	if bad[2] {
		network = oneOf(t, "net", c01BadNet)
	}
	var addr string
	isUnix := strings.EqualFold(strings.TrimSpace(network), "unix")
	switch {
	case isUnix && bad[3]:
		addr = oneOf(t, "addr", c01OddUnix)
	case isUnix:
		addr = "/tmp/plugin" + strconv.Itoa(rapid.IntRange(0, 999999).Draw(t, "sock"))
	case bad[3]:
		addr = oneOf(t, "addr", c01BadTCP)
	default:
		addr = oneOf(t, "tcpaddr", []string{"127.0.0.1:1234", ":1234", "[::1]:8080", "127.0.0.1:0", "0.0.0.0:65535", "127.0.0.1:http"})
	}
	fields = append(fields, network, addr)
	proto := "netrpc"
	if nf >= 5 {
		proto = oneOf(t, "protoc", []string{"netrpc", "grpc", "grpc"})
		// mostly pick something the client allows, so later fields are reached
		if al := cfg.allowed(); len(al) > 0 && !pct(t, "anyproto", 25) {
			proto = oneOf(t, "protoa", al)
		}
		if bad[4] {
			proto = oneOf(t, "proto", c01BadProto)
		}
		fields = append(fields, proto)
	}
	if nf >= 6 {
		cert := ""
		if cfg.TLS != "" && rapid.Bool().Draw(t, "withcert") {
			cert = c01Cert()
		}
		if bad[5] {
			if pct(t, "certnotls", 30) {
				cert = c01Cert() // valid certificate, possibly for a client without TLS
			} else {
				cert = oneOf(t, "cert", c01BadCerts())
			}
		}
		fields = append(fields, cert)
	}
	if nf >= 7 {
		mux := oneOf(t, "muxok", c01OkMux)
		if bad[6] {
			mux = oneOf(t, "mux", c01BadMux)
		}
		fields = append(fields, mux)
	}
	if nf >= 8 {
		fields = append(fields, oneOf(t, "extra", []string{"", "extra", "true"}))
	}
	if nf < 4 {
		fields = fields[:nf]
	}
	line := []byte(strings.Join(fields, "|"))
	// whole-line decoration
	switch weighted(t, "deco", 88, 4, 4, 4) {
	case 1:
		line = append([]byte(" "), line...)
	case 2:
		line = append(line, ' ', '\t')
	case 3:
		line = append([]byte("\t"), line...)
	}
	// byte-level mutation
	if pct(t, "mutate", 12) {
		n := 1 + uniform(t, "nmut", 3)
		for i := 0; i < n; i++ {
			b := oneOf(t, "mb", []byte{'|', ' ', '\t', '\r', 0, 0xff, '1', '9', '-', ':', '/', 'x'})
			pos := 0
			if len(line) > 0 {
				pos = rapid.IntRange(0, len(line)).Draw(t, "mpos")
			}
			switch uniform(t, "mop", 3) {
			case 0: // insert
				line = append(line[:pos], append([]byte{b}, line[pos:]...)...)
			case 1: // delete
				if pos < len(line) {
					line = append(line[:pos], line[pos+1:]...)
				}
			case 2: // replace
				if pos < len(line) {
					line[pos] = b
				}
			}
		}
	}
	return line
}

func mustDecodeRaw(s string) []byte {
	b, err := base64.RawStdEncoding.DecodeString(s)
	if err != nil {
		panic(err)
	}
	return b
}

func c01Gen(t *rapid.T) any {
	c := &c01Case{}
	c.Cfg = c01GenCfg(t)
	c.Line = c01GenLine(t, c.Cfg)
	c.Term = []string{"nl", "crlf", "more", "eof"}[weighted(t, "term", 60, 20, 10, 10)]
	if pct(t, "hang", 0.5) {
		c.Term = "hang"
	}
	c.Alive = !pct(t, "exits", 25)
	if c.Term == "eof" {
		c.Alive = false
	}
	if c.Term == "hang" {
		c.Alive = true
	}
	// a real process behind the library's own command runner: always for a share of the cases, and
	// more often when the line carries a unix path that is not in its shortest spelling
	p := 6.0
	if bytes.Contains(c.Line, []byte("unix|")) && (bytes.Contains(c.Line, []byte("//")) || bytes.Contains(c.Line, []byte("/.")) || bytes.Contains(c.Line, []byte("|./")) || bytes.Contains(c.Line, []byte("/|"))) {
		p = 50
	}
	if pct(t, "cmdlaunch", p) {
		c.Launch = "cmd"
		if pct(t, "shlaunch", 35) {
			c.Launch = "sh" // the plugin is a #! wrapper script, not a native executable
		}
	}
	return c
}

// c01Ref is the reference reading of a handshake line, written from
// docs/internals.md and the property statement (not from client.go).
type c01Ref struct {
	mustFail    string // non-empty: Start must return an error (reason)
	canonical   bool   // every field canonical and consistent: Start must succeed
	version     int
	network     string
	addrString  string
	protocol    string
	fieldsCount int
	reachedAddr bool // core and app fields acceptable: address/protocol logic reached
}

func c01Reference(cfg c01Cfg, raw []byte) c01Ref {
	var r c01Ref
	canonical := true
	fail := func(format string, a ...any) {
		if r.mustFail == "" {
			r.mustFail = fmt.Sprintf(format, a...)
		}
	}
	// first line: bytes up to the first newline; surrounding blanks are not significant
	s := string(raw)
	if i := strings.IndexByte(s, '\n'); i >= 0 {
		s = s[:i]
		canonical = false // a line generated with an embedded newline is not one of ours
	}
	trimmed := strings.TrimSpace(s)
	if trimmed != s || len(s) > 4096 {
		canonical = false
	}
	fields := strings.Split(trimmed, "|")
	r.fieldsCount = len(fields)
	if len(fields) < 4 {
		fail("fewer than 4 fields")
		return r
	}
	liberalInt := func(f string) (int, bool) {
		v, err := strconv.Atoi(strings.TrimSpace(f))
		return v, err == nil
	}
	// core protocol version
	core, ok := liberalInt(fields[0])
	if !ok || core != 1 {
		fail("core protocol version %q is not 1", fields[0])
	}
	if fields[0] != "1" {
		canonical = false
	}
	// application version
	app, ok := liberalInt(fields[1])
	if !ok || !cfg.offered()[app] {
		fail("application version %q is not offered", fields[1])
	} else {
		r.version = app
		if fields[1] != strconv.Itoa(app) {
			canonical = false
		}
	}
	if r.mustFail == "" {
		r.reachedAddr = true
	}
	// network and address
	network := strings.ToLower(strings.TrimSpace(fields[2]))
	switch network {
	case "tcp":
		a, err := net.ResolveTCPAddr("tcp", fields[3])
		if err != nil {
			if a2, err2 := net.ResolveTCPAddr("tcp", strings.TrimSpace(fields[3])); err2 != nil {
				fail("tcp address %q does not resolve: %v", fields[3], err)
			} else {
				canonical = false
				r.addrString = a2.String()
			}
		} else {
			r.addrString = a.String()
		}
	case "unix":
		a, err := net.ResolveUnixAddr("unix", fields[3])
		if err != nil {
			fail("unix address %q does not resolve: %v", fields[3], err)
		} else {
			r.addrString = a.String()
		}
		if fields[3] == "" || len(fields[3]) > 100 {
			canonical = false // not a usable socket path; the statement is silent
		}
	default:
		fail("network %q is neither tcp nor unix", fields[2])
	}
	if fields[2] != "tcp" && fields[2] != "unix" {
		canonical = false
	}
	r.network = fields[2]
	// protocol
	proto := "netrpc"
	if len(fields) >= 5 {
		proto = fields[4]
	}
	allowedExact, allowedLiberal := false, false
	for _, a := range cfg.allowed() {
		if a == proto {
			allowedExact = true
		}
		if a == strings.TrimSpace(proto) {
			allowedLiberal = true
		}
	}
	if !allowedLiberal {
		fail("protocol %q is not in the allowed list %v", proto, cfg.allowed())
	}
	if !allowedExact {
		canonical = false
	}
	r.protocol = proto
	// certificate
	if len(fields) >= 6 && len(fields[5]) > 50 {
		parses := false
		for _, enc := range []*base64.Encoding{base64.RawStdEncoding, base64.StdEncoding} {
			if der, err := enc.DecodeString(fields[5]); err == nil {
				if _, err := x509.ParseCertificate(der); err == nil {
					parses = true
				}
			}
		}
		if !parses {
			fail("certificate field does not parse")
		}
		if _, err := base64.RawStdEncoding.DecodeString(fields[5]); err != nil {
			canonical = false
		}
		if cfg.TLS == "" {
			canonical = false // a certificate for a client without TLS: the statement only forbids a panic
		}
	} else if len(fields) >= 6 && fields[5] != "" {
		canonical = false // short legacy "extra" data: either outcome
	}
	// multiplexing flag
	if cfg.Mux && strings.TrimSpace(proto) == "grpc" {
		if len(fields) < 7 {
			fail("multiplexing requested but the plugin does not advertise it")
		} else if b, err := strconv.ParseBool(strings.TrimSpace(fields[6])); err != nil || !b {
			fail("multiplexing requested but the flag is %q", fields[6])
		} else if _, err := strconv.ParseBool(fields[6]); err != nil {
			canonical = false
		}
	} else if len(fields) >= 7 {
		if _, err := strconv.ParseBool(fields[6]); err != nil {
			canonical = false
		}
	}
	if len(fields) > 7 {
		canonical = false
	}
	r.canonical = canonical && r.mustFail == ""
	return r
}

func (c c01Cfg) clientConfig(rf func(hclog.Logger, *exec.Cmd, string) (runner.Runner, error), startTimeout time.Duration) *plugin.ClientConfig {
	cc := &plugin.ClientConfig{
		HandshakeConfig:     plugin.HandshakeConfig{ProtocolVersion: c.LegacyVersion, MagicCookieKey: defaultCookieKey, MagicCookieValue: defaultCookieValue},
		RunnerFunc:          rf,
		StartTimeout:        startTimeout,
		Logger:              nullLogger(),
		GRPCBrokerMultiplex: c.Mux,
	}
	if c.LegacySet {
		cc.Plugins = buildSet(SetSpec{Kind: "dual"}, int(c.LegacyVersion), "host")
	}
	if c.Versions != nil {
		cc.VersionedPlugins = map[int]plugin.PluginSet{}
		for _, v := range c.Versions {
			cc.VersionedPlugins[v] = buildSet(SetSpec{Kind: "dual"}, v, "host")
		}
	}
	if c.Allowed != nil {
		cc.AllowedProtocols = []plugin.Protocol{}
		for _, a := range c.Allowed {
			cc.AllowedProtocols = append(cc.AllowedProtocols, plugin.Protocol(a))
		}
	}
	switch c.TLS {
	case "static":
		cc.TLSConfig = hostStaticTLS()
	case "auto":
		cc.AutoMTLS = true
	}
	return cc
}

func c01Script(c *c01Case) FakeSpec {
	var steps []FakeStep
	data := append([]byte{}, c.Line...)
	switch c.Term {
	case "nl":
		data = append(data, '\n')
	case "crlf":
		data = append(data, '\r', '\n')
	case "more":
		data = append(data, []byte("\nsecond line|x|y|z\nthird\n")...)
	}
	steps = append(steps, FakeStep{Op: "out", Data: data})
	if c.Alive {
		steps = append(steps, FakeStep{Op: "forever"})
	} else {
		steps = append(steps, FakeStep{Op: "exit"})
	}
	return FakeSpec{Steps: steps}
}

var c01Seq int64

func c01Run(ci any) (out Outcome) {
	c := ci.(*c01Case)
	ref := c01Reference(c.Cfg, c.Line)
	startTimeout := 3 * time.Second
	if c.Term == "hang" {
		startTimeout = 300 * time.Millisecond
	}
	var sr *scriptRunner
	var cc *plugin.ClientConfig
	if c.Launch == "cmd" {
		cc = c.Cfg.clientConfig(nil, startTimeout)
		cc.Cmd = fakeCmd(c01Script(c))
		out.label("launch:cmd")
	} else if c.Launch == "sh" {
		cc = c.Cfg.clientConfig(nil, startTimeout)
		n := atomic.AddInt64(&c01Seq, 1)
		data := filepath.Join(scratchDir(), fmt.Sprintf("c01-%d.out", n))
		exe := filepath.Join(scratchDir(), fmt.Sprintf("c01-%d.sh", n))
		defer os.Remove(data)
		defer os.Remove(exe)
		os.WriteFile(data, c01Script(c).Steps[0].Data, 0o644)
		tail := "exit 0\n"
		if c.Alive {
			tail = "exec sleep 30\n"
		}
		os.WriteFile(exe, []byte("#!/bin/sh\ncat "+data+"\n"+tail), 0o755)
		cc.Cmd = exec.Command(exe)
		out.label("launch:sh")
	} else {
		sr = newScriptRunner(c01Script(c))
		cc = c.Cfg.clientConfig(func(hclog.Logger, *exec.Cmd, string) (runner.Runner, error) { return sr, nil }, startTimeout)
	}
	cl := plugin.NewClient(cc)
	defer func() {
		// end the scripted plugin first: Kill then has nothing to negotiate with
		// (Kill's own behaviour is the subject of C04/C05, not of this check)
		if sr != nil {
			sr.Kill(nil)
		} else if cc.Cmd.Process != nil {
			cc.Cmd.Process.Kill()
		}
		if _, ok := killBounded(cl, 15*time.Second); !ok {
			out.Slow = "Kill after Start did not return within 15 s"
		}
	}()

	out.label("term:%s", c.Term)
	out.label("tls:%s", c.Cfg.TLS)
	out.label("fields:%d", min(ref.fieldsCount, 9))
	switch {
	case ref.mustFail != "":
		out.label("ref:must-fail")
	case ref.canonical:
		out.label("ref:canonical")
	default:
		out.label("ref:either")
	}

	var addr net.Addr
	var err error
	var panicked any
	el, finished := within(startTimeout+5*time.Second, func() {
		defer func() { panicked = recover() }()
		addr, err = cl.Start()
	})
	if !finished {
		out.Slow = fmt.Sprintf("Start did not return within StartTimeout(%v)+5s", startTimeout)
		return
	}
	_ = el
	if panicked != nil {
		out.NonTrivial = true
		out.violate("Start panicked on line %q (cfg %+v): %v", c.Line, c.Cfg, panicked)
		return
	}
	out.NonTrivial = ref.reachedAddr || err == nil
	if err == nil {
		out.label("result:ok")
	} else {
		out.label("result:error")
	}

	// unterminated line from a live plugin: nothing to read, Start must time out
	if c.Term == "hang" {
		if err == nil {
			out.violate("Start succeeded although the plugin never terminated its first line %q", c.Line)
		}
		return
	}
	if err == nil && (addr == nil || isNilAddr(addr)) {
		out.violate("Start returned neither an error nor an address for line %q (reference: %s)", c.Line, orStr(ref.mustFail, "acceptable"))
		return
	}
	if err != nil {
		// a line that was rejected stays rejected: asking again must not turn it into a success
		var addr2 net.Addr
		var err2 error
		var panicked2 any
		if _, ok := within(startTimeout+5*time.Second, func() {
			defer func() { panicked2 = recover() }()
			addr2, err2 = cl.Start()
		}); !ok {
			out.Slow = "a second Start after a failed one did not return in time"
			return
		}
		if panicked2 != nil {
			out.violate("second Start after a rejected line %q panicked: %v", c.Line, panicked2)
			return
		}
		if err2 == nil {
			out.violate("Start rejected line %q (%v) but a second Start on the same client returned success (addr %v, protocol %q)", c.Line, firstLine(err), addr2, cl.Protocol())
			return
		}
		if rc := cl.ReattachConfig(); rc != nil {
			out.violate("Start rejected line %q (%v) but ReattachConfig() is not nil afterwards: %+v", c.Line, firstLine(err), *rc)
			return
		}
	}
	if ref.mustFail != "" {
		if err == nil {
			out.violate("Start accepted line %q although %s (cfg %+v); addr=%v protocol=%v version=%d", c.Line, ref.mustFail, c.Cfg, addr, cl.Protocol(), cl.NegotiatedVersion())
		}
		return
	}
	if err != nil {
		if ref.canonical && c.Alive && c.Term != "eof" {
			out.violate("Start rejected canonical line %q (cfg %+v): %v", c.Line, c.Cfg, err)
		}
		return
	}
	// success: what the client reports must be what the line says
	switch addr.(type) {
	case *net.TCPAddr, *net.UnixAddr:
	default:
		out.violate("address %T is not dialable", addr)
	}
	if ref.canonical {
		if addr.Network() != ref.network {
			out.violate("reported network %q, line says %q", addr.Network(), ref.network)
		}
		if addr.String() != ref.addrString {
			out.violate("reported address %q, line resolves to %q", addr.String(), ref.addrString)
		}
		if string(cl.Protocol()) != ref.protocol {
			out.violate("reported protocol %q, line says %q", cl.Protocol(), ref.protocol)
		}
		if cl.NegotiatedVersion() != ref.version {
			out.violate("reported version %d, line says %d", cl.NegotiatedVersion(), ref.version)
		}
	} else {
		// liberal spellings: compare up to blanks / case
		if !strings.EqualFold(addr.Network(), strings.TrimSpace(ref.network)) {
			out.violate("reported network %q, line says %q", addr.Network(), ref.network)
		}
		if ref.addrString != "" && addr.String() != ref.addrString {
			out.violate("reported address %q, line resolves to %q", addr.String(), ref.addrString)
		}
		if strings.TrimSpace(string(cl.Protocol())) != strings.TrimSpace(ref.protocol) {
			out.violate("reported protocol %q, line says %q", cl.Protocol(), ref.protocol)
		}
		if cl.NegotiatedVersion() != ref.version {
			out.violate("reported version %d, line says %d", cl.NegotiatedVersion(), ref.version)
		}
	}
	// the protocol is always inside the allowed list
	inAllowed := false
	for _, a := range c.Cfg.allowed() {
		if a == string(cl.Protocol()) {
			inAllowed = true
		}
	}
	if !inAllowed {
		out.violate("client reports protocol %q outside its allowed list %v", cl.Protocol(), c.Cfg.allowed())
	}
	return
}

func isNilAddr(a net.Addr) bool {
	switch v := a.(type) {
	case *net.TCPAddr:
		return v == nil
	case *net.UnixAddr:
		return v == nil
	}
	return false
}

func orStr(a, b string) string {
	if a != "" {
		return a
	}
	return b
}

var propC01 = register(&Prop{
	ID:  "C01",
	Gen: c01Gen,
	New: func() any { return &c01Case{} },
	Run: c01Run,
	Rule: "rapid draws a client configuration (legacy/versioned/both version sets, allowed-protocol lists incl. unknown names and empty, TLS none/static/AutoMTLS, mux on/off) " +
		"and a first stdout line from a per-field class grammar (core/app/network/address/protocol/certificate/mux field each canonical or from a hostile class list; 0-8 fields; blanks), " +
		"then optional byte mutations, or fully random bytes; terminator nl/crlf/eof/more-lines/never-terminated; delivered through an in-process scripted runner or (6% of the cases, 50% for unix paths not in their shortest spelling) by a real process (the test binary or a #! wrapper script) behind the library's own command runner. " +
		"Oracle: independent reference parser: must-fail conditions of the statement, canonical lines must succeed, on success reported network/address/protocol/version equal the line, " +
		"never (nil,nil), never a panic, bounded return. Non-trivial: >=4 fields with acceptable core and app version (address/protocol/cert/mux logic reached) or Start succeeded.",
	Assumptions: []string{
		"\"resolvable\" is judged by this sandbox's resolver (no DNS): net.ResolveTCPAddr / net.ResolveUnixAddr on the field",
		"integer fields are read liberally (Atoi after trimming blanks): odd spellings may go either way, only clear non-integers must fail",
		"a certificate field is the 6th field when longer than 50 characters (docs/internals.md); shorter legacy data may go either way",
	},
})
