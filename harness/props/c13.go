package props

import (
	"bytes"
	"crypto/md5"
	"crypto/sha1"
	"crypto/sha256"
	"crypto/sha512"
	"errors"
	"fmt"
	"hash"
	"os"
	"os/exec"
	"path/filepath"
	"strings"
	"sync/atomic"
	"time"

	plugin "github.com/hashicorp/go-plugin"
	"pgregory.net/rapid"
)

// C13 — SecureConfig runs the binary only if its checksum matches.

type c13Case struct {
	Tail   []byte `json:"tail"`   // random tail appended to the launch-marker script
	Hash   string `json:"hash"`   // md5 | sha1 | sha256 | sha512 | nil
	Mode   string `json:"mode"`   // exact | flip | prefix | extend | random | empty | nil | otherhash | missing (the file at the command path does not exist) | replaced (the file was overwritten after the digest was taken)
	Pos    int    `json:"pos"`    // bit position (flip) or length (prefix)
	Extra  []byte `json:"extra"`  // trailing bytes (extend) / replacement (random)
	Linger bool   `json:"linger"` // re-check the marker 200 ms later
	// Second verification of the same path (mode exact only): the file is rewritten between two
	// Starts with content of the same length, optionally with its old modification time restored.
	// "good-bad": verified and run once, then tampered; "bad-good": tampered first, then the right file.
	Swap      string `json:"swap,omitempty"`
	KeepMtime bool   `json:"keep_mtime,omitempty"`
}

func c13Hash(name string) hash.Hash {
	switch name {
	case "md5":
		return md5.New()
	case "sha1":
		return sha1.New()
	case "sha256":
		return sha256.New()
	case "sha512":
		return sha512.New()
	}
	return nil
}

var c13Seq int64

var errFileMissing = errors.New("file missing")

func c13Gen(t *rapid.T) any {
	c := &c13Case{}
	c.Hash = rapid.SampledFrom([]string{"md5", "sha1", "sha256", "sha512", "sha256", "nil"}).Draw(t, "hash")
	if rapid.IntRange(0, 9).Draw(t, "big") == 0 {
		c.Tail = rapid.SliceOfN(rapid.Byte(), 1000, 70000).Draw(t, "tail")
	} else {
		c.Tail = rapid.SliceOfN(rapid.Byte(), 0, 80).Draw(t, "tail")
	}
	c.Mode = rapid.SampledFrom([]string{"exact", "exact", "flip", "flip", "prefix", "extend", "random", "empty", "nil", "otherhash", "missing", "replaced", "barename"}).Draw(t, "mode")
	size := 32
	if h := c13Hash(c.Hash); h != nil {
		size = h.Size()
	}
	switch c.Mode {
	case "flip":
		c.Pos = rapid.IntRange(0, size*8-1).Draw(t, "bit")
	case "prefix":
		c.Pos = rapid.IntRange(0, size-1).Draw(t, "len")
	case "extend":
		c.Extra = rapid.SliceOfN(rapid.Byte(), 1, 8).Draw(t, "extra")
	case "random":
		c.Extra = rapid.SliceOfN(rapid.Byte(), size, size).Draw(t, "random")
	}
	c.Linger = rapid.IntRange(0, 39).Draw(t, "linger") == 0
	if c.Mode == "exact" && c.Hash != "nil" && pct(t, "swap", 50) {
		c.Swap = oneOf(t, "swapkind", []string{"good-bad", "bad-good"})
		c.KeepMtime = pct(t, "keepmtime", 70)
	}
	return c
}

func c13Run(ci any) (out Outcome) {
	c := ci.(*c13Case)
	dir := scratchDir()
	n := atomic.AddInt64(&c13Seq, 1)
	exe := filepath.Join(dir, fmt.Sprintf("c13-%d.sh", n))
	marker := filepath.Join(dir, fmt.Sprintf("c13-%d.marker", n))
	defer os.Remove(exe)
	defer os.Remove(marker)
	script := []byte("#!/bin/sh\necho launched >> " + marker + "\nexit 0\n#")
	content := append(script, c.Tail...)

	// the reference digest, computed by the harness
	refHash := c13Hash(c.Hash)
	if refHash == nil {
		refHash = sha256.New()
	}
	refHash.Write(content)
	digest := refHash.Sum(nil)

	var checksum []byte
	switch c.Mode {
	case "exact", "missing", "replaced", "barename":
		checksum = append([]byte{}, digest...)
	case "flip":
		checksum = append([]byte{}, digest...)
		p := c.Pos % (len(digest) * 8)
		checksum[p/8] ^= 1 << uint(p%8)
	case "prefix":
		checksum = append([]byte{}, digest[:c.Pos%len(digest)]...)
	case "extend":
		checksum = append(append([]byte{}, digest...), c.Extra...)
	case "random":
		checksum = append([]byte{}, c.Extra...)
	case "empty":
		checksum = []byte{}
	case "nil":
		checksum = nil
	case "otherhash":
		var o hash.Hash = md5.New()
		if c.Hash == "md5" {
			o = sha1.New()
		}
		o.Write(content)
		checksum = o.Sum(nil)
	}
	out.label("mode:%s", c.Mode)
	out.label("hash:%s", c.Hash)

	// what is on disk when Start runs: for "replaced" a different (still executable) file, for "missing" nothing
	onDisk := content
	if c.Mode == "replaced" {
		onDisk = append(append([]byte{}, script...), []byte("\n# tampered after the checksum was computed\n")...)
	}
	var wantErr error
	switch {
	case c.Mode == "missing":
		wantErr = errFileMissing
	case c.Mode == "replaced" && c.Hash != "nil":
		wantErr = plugin.ErrChecksumsDoNotMatch
	case len(checksum) == 0:
		wantErr = plugin.ErrSecureConfigNoChecksum
	case c.Hash == "nil":
		wantErr = plugin.ErrSecureConfigNoHash
	case !bytes.Equal(checksum, digest):
		wantErr = plugin.ErrChecksumsDoNotMatch
	}
	common := 0
	for common < len(checksum) && common < len(digest) && checksum[common] == digest[common] {
		common++
	}
	out.NonTrivial = wantErr == nil || (common >= 1 && c.Hash != "nil" && len(checksum) > 0)
	if wantErr == nil {
		out.label("expect:launch")
	} else {
		out.label("expect:%s", wantErr.Error())
	}

	if c.Mode == "barename" && c.Hash != "nil" {
		c13BareName(c, dir, n, content, checksum, &out)
		return
	}
	if c.Swap == "" {
		c13Start(c, exe, marker, onDisk, c.Mode == "missing", checksum, digest, wantErr, &out)
		return
	}
	// a history on one path: same length, one byte different, (optionally) the same mtime
	out.label("swap:%s", c.Swap)
	out.label("keep_mtime:%v", c.KeepMtime)
	tampered := append([]byte{}, content...)
	tampered[len(tampered)-1] ^= 0x01 // inside the trailing comment: still a runnable script
	first, second := content, tampered
	var firstErr, secondErr error = nil, plugin.ErrChecksumsDoNotMatch
	if c.Swap == "bad-good" {
		first, second = tampered, content
		firstErr, secondErr = plugin.ErrChecksumsDoNotMatch, nil
	}
	old := time.Now().Add(-time.Hour).Truncate(time.Second)
	stamp := func() {
		if c.KeepMtime {
			if err := os.Chtimes(exe, old, old); err != nil {
				panic(err)
			}
		}
	}
	if !c13Start(c, exe, marker, first, false, checksum, digest, firstErr, &out, stamp) {
		return
	}
	os.Remove(marker)
	c13Start(c, exe, marker, second, false, checksum, digest, secondErr, &out, stamp)
	if out.Violation != "" {
		out.Violation = "second verification of the same path (" + c.Swap + fmt.Sprintf(", mtime kept=%v): ", c.KeepMtime) + out.Violation
	}
	return
}

// c13BareName: the command path is a bare file name (exec.Cmd literal). The verified file is the one
// that path names - relative to the host's working directory - and that is the file that must run,
// not a file of the same name found through PATH. Cases of one process run one after the other, so
// the working directory and PATH of the process can be borrowed for the case.
func c13BareName(c *c13Case, dir string, n int64, content, checksum []byte, out *Outcome) {
	work := filepath.Join(dir, fmt.Sprintf("c13-%d-cwd", n))
	bin := filepath.Join(dir, fmt.Sprintf("c13-%d-bin", n))
	os.MkdirAll(work, 0o755)
	os.MkdirAll(bin, 0o755)
	defer os.RemoveAll(work)
	defer os.RemoveAll(bin)
	name := fmt.Sprintf("c13plugin%d", n)
	evilMarker := filepath.Join(bin, "ran")
	marker := filepath.Join(dir, fmt.Sprintf("c13-%d.marker", n))
	os.WriteFile(filepath.Join(work, name), content, 0o755)
	os.WriteFile(filepath.Join(bin, name), []byte("#!/bin/sh\necho launched >> "+evilMarker+"\nexit 0\n"), 0o755)
	oldwd, err := os.Getwd()
	if err != nil {
		panic(err)
	}
	oldPath := os.Getenv("PATH")
	if err := os.Chdir(work); err != nil {
		panic(err)
	}
	os.Setenv("PATH", bin+string(os.PathListSeparator)+oldPath)
	defer os.Chdir(oldwd)
	defer os.Setenv("PATH", oldPath)
	cmd := &exec.Cmd{Path: name, Args: []string{name}}
	cl := plugin.NewClient(&plugin.ClientConfig{
		HandshakeConfig: plugin.HandshakeConfig{ProtocolVersion: 1, MagicCookieKey: "K", MagicCookieValue: "V"},
		Plugins:         plugin.PluginSet{},
		Cmd:             cmd,
		SecureConfig:    &plugin.SecureConfig{Checksum: checksum, Hash: c13Hash(c.Hash)},
		StartTimeout:    5 * time.Second,
		Logger:          nullLogger(),
	})
	var serr error
	if el, ok := within(20*time.Second, func() { _, serr = cl.Start() }); !ok {
		out.Slow = fmt.Sprintf("Start did not return within %v", el)
		return
	}
	killBounded(cl, 10*time.Second)
	out.NonTrivial = true
	time.Sleep(20 * time.Millisecond)
	if _, err := os.Stat(evilMarker); err == nil {
		out.violate("the checksum of ./%s was verified, but the file that ran is %s found through PATH (never verified); Start: %v", name, filepath.Join(bin, name), serr)
		return
	}
	if _, err := os.Stat(marker); err != nil && cmd.Process == nil {
		out.violate("checksum equals the digest of ./%s but nothing was executed: %v", name, serr)
	}
}

// c13Start writes onDisk to exe (unless missing), starts a client with the SecureConfig and judges
// the outcome against wantErr; it reports whether the expectation held.
func c13Start(c *c13Case, exe, marker string, onDisk []byte, missing bool, checksum, digest []byte, wantErr error, outp *Outcome, afterWrite ...func()) bool {
	out := outp
	for attempt := 0; ; attempt++ {
		os.Remove(exe)
		if !missing {
			if err := os.WriteFile(exe, onDisk, 0o755); err != nil {
				panic(err)
			}
			for _, f := range afterWrite {
				f()
			}
		}
		cmd := exec.Command(exe)
		cl := plugin.NewClient(&plugin.ClientConfig{
			HandshakeConfig: plugin.HandshakeConfig{ProtocolVersion: 1, MagicCookieKey: "K", MagicCookieValue: "V"},
			Plugins:         plugin.PluginSet{},
			Cmd:             cmd,
			SecureConfig:    &plugin.SecureConfig{Checksum: checksum, Hash: c13Hash(c.Hash)},
			StartTimeout:    5 * time.Second,
			Logger:          nullLogger(),
		})
		var err error
		var addr any
		el, ok := within(20*time.Second, func() { addr, err = cl.Start() })
		if !ok {
			out.Slow = fmt.Sprintf("Start did not return within %v", el)
			return false
		}
		launched := cmd.Process != nil
		if err != nil && strings.Contains(err.Error(), "text file busy") && attempt < 4 {
			out.label("retry:etxtbsy")
			killBounded(cl, 10*time.Second)
			continue
		}
		_, merr := os.Stat(marker)
		markerSeen := merr == nil
		if c.Linger && wantErr != nil && !markerSeen {
			time.Sleep(200 * time.Millisecond)
			_, merr = os.Stat(marker)
			markerSeen = merr == nil
		}
		killBounded(cl, 10*time.Second)

		if wantErr != nil {
			if launched || markerSeen {
				out.violate("binary was executed although checksum %x != digest %x (hash %s, mode %s): launched=%v marker=%v err=%v", checksum, digest, c.Hash, c.Mode, launched, markerSeen, err)
				return false
			}
			if err == nil {
				out.violate("Start returned no error (addr %v) for a non-matching SecureConfig (mode %s)", addr, c.Mode)
				return false
			}
			// "the corresponding error": the sentinel itself or, where the library
			// wraps it textually, an error naming it.
			if wantErr == errFileMissing {
				return true // any error will do for a missing file; nothing may have been executed (checked above)
			}
			if !errors.Is(err, wantErr) && !strings.Contains(err.Error(), wantErr.Error()) {
				out.violate("wrong error for mode %s: got %q, want %q", c.Mode, err, wantErr)
			}
			return out.Violation == ""
		}
		// matching checksum: the binary must have been executed
		if !launched {
			out.violate("checksum equals the digest but the binary was not executed: err=%v", err)
			return false
		}
		for _, s := range []error{plugin.ErrChecksumsDoNotMatch, plugin.ErrSecureConfigNoChecksum, plugin.ErrSecureConfigNoHash} {
			if err != nil && (errors.Is(err, s) || strings.Contains(err.Error(), s.Error())) {
				out.violate("checksum equals the digest but Start reported %q", err)
			}
		}
		return out.Violation == ""
	}
}

var propC13 = register(&Prop{
	ID:  "C13",
	Gen: c13Gen,
	New: func() any { return &c13Case{} },
	Run: c13Run,
	Rule: "rapid draws (script tail bytes 0..70000, hash in md5/sha1/sha256/sha512/nil, checksum mode in exact/one-bit-flip at drawn position/" +
		"proper prefix of drawn length/extended by 1..8 bytes/random same length/empty/nil/digest of another hash; missing file; file replaced after the digest was taken; bare-name command path with a same-named other executable first in PATH; two verifications of one path with a same-length rewrite in between, old mtime restored or not, good-then-tampered and tampered-then-good); oracle: differential against the " +
		"harness's own digest: executed (exec.Cmd.Process set or launch marker written) <=> checksum == digest, else the matching sentinel error. " +
		"Non-trivial: checksum equals the digest, or differs but shares a >=1 byte prefix with it. Distinct by full case.",
	Assumptions: []string{"a fresh hash.Hash per SecureConfig (documented use)", "launch is observed through exec.Cmd.Process and a marker file written by the target script"},
})
