package props

import (
	"fmt"
	"runtime"
	"strings"
	"sync"
	"time"

	"pgregory.net/rapid"
)

// C09 (gRPC broker part, real time): unmatched, duplicate or late peers cannot wedge a GRPCBroker.

type c09Op struct {
	Kind        string `json:"kind"` // dial_only | dup_dial | late_dial | pair
	HostAccepts bool   `json:"host_accepts"`
	At          int    `json:"at_ms"`
	GapMs       int    `json:"gap_ms,omitempty"`
}

type c09Hist struct {
	Mux bool    `json:"mux"`
	Ops []c09Op `json:"ops"`
	// LeaveServers: the caller does not stop the brokered servers it started with AcceptAndServe;
	// closing the client and the plugin's server has to end them (and their goroutines)
	LeaveServers bool `json:"leave_servers,omitempty"`
}

type c09Case struct {
	Hists []c09Hist `json:"hists"` // independent histories, each on its own pair, run concurrently so the 5 s timers overlap
}

func c09RTGen(t *rapid.T) any {
	c := &c09Case{}
	nh := 4 + uniform(t, "nhist", 13)
	for h := 0; h < nh; h++ {
		hist := c09Hist{Mux: rapid.Bool().Draw(t, "mux"), LeaveServers: rapid.Bool().Draw(t, "leaveservers")}
		n := 1 + uniform(t, "nops", 4)
		if hist.Mux {
			n = 1 + uniform(t, "nopsmux", 2) // multiplexed establishments are sequential: keep them few
		}
		for i := 0; i < n; i++ {
			op := c09Op{HostAccepts: rapid.Bool().Draw(t, "hostaccepts"), At: uniform(t, "at", 300)}
			switch weighted(t, "kind", 35, 25, 20, 20) {
			case 0:
				op.Kind = "dial_only"
			case 1:
				op.Kind, op.GapMs = "dup_dial", oneOf(t, "dupgap", []int{0, 1, 50, 1000})
			case 2:
				op.Kind, op.GapMs = "late_dial", 5000+oneOf(t, "late", []int{50, 200, 1000})
			case 3:
				op.Kind, op.GapMs = "pair", uniform(t, "gap", 200)
			}
			hist.Ops = append(hist.Ops, op)
		}
		c.Hists = append(c.Hists, hist)
	}
	return c
}

func goPluginStacks() []string {
	buf := make([]byte, 4<<20)
	n := runtime.Stack(buf, true)
	var out []string
	for _, g := range strings.Split(string(buf[:n]), "\n\n") {
		if strings.Contains(g, "github.com/hashicorp/go-plugin.") || strings.Contains(g, "github.com/hashicorp/go-plugin/internal/") {
			out = append(out, g)
		}
	}
	return out
}

func c09RunHist(h c09Hist) (violation, slow string) {
	p, err := newGRPCPair(h.Mux)
	if err != nil {
		return fmt.Sprintf("could not build the pair: %v", err), ""
	}
	host, plug := &localEnd{br: p.host, name: "host"}, &localEnd{br: p.plug, name: "plugin"}
	defer func() {
		if h.LeaveServers {
			host.cleanupPartial(0)
			plug.cleanupPartial(0)
		} else {
			host.cleanup()
			plug.cleanup()
		}
		p.close()
	}()
	type res struct {
		what    string
		err     error
		elapsed time.Duration
		mustErr bool
		mustOK  bool
	}
	var mu sync.Mutex
	var results []res
	var wg sync.WaitGroup
	timed := func(what string, at int, mustErr, mustOK bool, f func() error) {
		wg.Add(1)
		go func() {
			defer wg.Done()
			time.Sleep(time.Duration(at) * time.Millisecond)
			start := time.Now()
			e := f()
			mu.Lock()
			results = append(results, res{what, e, time.Since(start), mustErr, mustOK})
			mu.Unlock()
		}()
	}
	runOps := func() {
		for i, op := range h.Ops {
			id := uint32(100 + i)
			acc, dia := brokerEnd(plug), brokerEnd(host)
			if op.HostAccepts {
				acc, dia = host, plug
			}
			dial := func() error { _, e := dia.dial(id, 0); return e }
			switch op.Kind {
			case "dial_only":
				timed(fmt.Sprintf("dial of id %d nobody accepts", id), op.At, true, false, dial)
			case "dup_dial":
				acc.accept(id, time.Duration(op.At)*time.Millisecond)
				// the two dials race for one accepted id: either may win, one of them must
				timed(fmt.Sprintf("dup-dial of id %d #1", id), op.At+5, false, false, dial)
				timed(fmt.Sprintf("dup-dial of id %d #2", id), op.At+5+op.GapMs, false, false, dial)
			case "late_dial":
				acc.accept(id, time.Duration(op.At)*time.Millisecond)
				timed(fmt.Sprintf("dial of id %d issued %d ms after the accept", id, op.GapMs), op.At+op.GapMs, false, false, dial)
			case "pair":
				acc.accept(id, time.Duration(op.At)*time.Millisecond)
				timed(fmt.Sprintf("dial of id %d (in window)", id), op.At+op.GapMs, false, true, dial)
			}
			if h.Mux {
				wg.Wait() // multiplexed establishments one at a time
			}
		}
		wg.Wait()
	}
	if _, ok := within(90*time.Second, runOps); !ok {
		return "", fmt.Sprintf("history %+v did not finish within 90 s: a broker call never returned", h)
	}
	for _, r := range results {
		if r.elapsed > 15*time.Second {
			// bound: about 5 s, + 10 s real-time slack
			slow = fmt.Sprintf("%s returned after %v (err %v); bound is about 5 s (mux %v)", r.what, r.elapsed, r.err, h.Mux)
		}
		if r.mustErr && r.err == nil {
			return fmt.Sprintf("%s succeeded (mux %v)", r.what, h.Mux), ""
		}
		if r.mustOK && r.err != nil {
			return fmt.Sprintf("%s failed inside the pending window: %v (mux %v, history %+v)", r.what, firstLine(r.err), h.Mux, h.Ops), ""
		}
	}
	if slow != "" {
		return "", slow
	}
	dupOK, dupSeen := map[string]int{}, map[string]bool{}
	for _, r := range results {
		if strings.HasPrefix(r.what, "dup-dial") {
			key := r.what[:strings.LastIndex(r.what, " #")]
			dupSeen[key] = true
			if r.err == nil {
				dupOK[key]++
			}
		}
	}
	for key := range dupSeen {
		if dupOK[key] == 0 {
			return fmt.Sprintf("%s: the id was accepted and dialled twice inside the window but neither dial succeeded (mux %v, history %+v)", key, h.Mux, h.Ops), ""
		}
	}
	// a fresh pair on a new id still works in both directions, and the main connection too
	for i, e := range []struct{ acc, dia brokerEnd }{{host, plug}, {plug, host}} {
		id := uint32(900 + i)
		e.acc.accept(id, 0)
		var tag Tag
		var derr error
		if _, ok := within(25*time.Second, func() { tag, derr = e.dia.dial(id, 2*time.Millisecond) }); !ok {
			return "", fmt.Sprintf("after history %+v a fresh accept/dial pair did not complete within 25 s: the broker is wedged", h)
		}
		if derr != nil || tag.Broker != id {
			return fmt.Sprintf("after history %+v a fresh accept/dial pair on id %d failed: %v %+v", h, id, derr, tag), ""
		}
	}
	if err := p.client.Ping(); err != nil {
		return fmt.Sprintf("after history %+v the main connection is broken: %v", h, err), ""
	}
	return "", ""
}

func c09RTRun(ci any) (out Outcome) {
	c := ci.(*c09Case)
	base := len(goPluginStacks())
	var wg sync.WaitGroup
	viol := make([]string, len(c.Hists))
	slow := make([]string, len(c.Hists))
	unmatched := false
	for i, h := range c.Hists {
		for _, op := range h.Ops {
			out.label("op:%s", op.Kind)
			if op.Kind != "pair" {
				unmatched = true
			}
		}
		if h.Mux {
			out.label("hist:mux")
		} else {
			out.label("hist:plain")
		}
		wg.Add(1)
		go func(i int, h c09Hist) {
			defer wg.Done()
			viol[i], slow[i] = c09RunHist(h)
		}(i, h)
	}
	if _, ok := within(150*time.Second, wg.Wait); !ok {
		out.Slow = "the batch of histories did not finish within 150 s"
		return
	}
	out.NonTrivial = unmatched
	for i := range viol {
		if viol[i] != "" {
			out.violate("%s", viol[i])
			return
		}
	}
	for i := range slow {
		if slow[i] != "" {
			out.Slow = slow[i]
			return
		}
	}
	// closing the clients ends the brokers' goroutines (5 s timers may still be pending)
	var left []string
	if !waitForD(12*time.Second, 100*time.Millisecond, func() bool { left = goPluginStacks(); return len(left) <= base }) {
		out.violate("%d goroutine(s) inside go-plugin remain 12 s after closing every client (baseline %d); first:\n%s", len(left)-base, base, trimStack(left[len(left)-1]))
	}
	return
}

func waitForD(d, step time.Duration, cond func() bool) bool {
	deadline := time.Now().Add(d)
	for {
		if cond() {
			return true
		}
		if time.Now().After(deadline) {
			return false
		}
		time.Sleep(step)
	}
}

var propC09RT = register(&Prop{
	ID: "C09", Name: "C09RT", Gen: c09RTGen, New: func() any { return &c09Case{} }, Run: c09RTRun,
	Rule: "real time, gRPC brokers (plain and multiplexed) on in-process pairs: a case is a batch of 4-16 independent histories run concurrently (so that their 5 s timers overlap), each of 1-4 operations over {dial nobody accepts, two dials to one accepted id, dial issued 5.05-6 s after the accept (connection info expired), normal in-window pair}. " +
		"Oracle: an unmatched dial (+first call) fails, in-window dials succeed, every call returns within about 5 s (+10 s wall-clock slack, confirmed alone by the driver), afterwards a fresh accept/dial pair succeeds in both directions and Ping works, and 12 s after closing every client no goroutine inside go-plugin remains beyond the baseline, whether the caller stopped its brokered servers itself or left them to the close (drawn per history). Non-trivial: the batch contains an unmatched, duplicate or late operation.",
})
