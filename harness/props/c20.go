package props

import (
	"fmt"
	"os"
	"path/filepath"
	"sort"
	"strconv"
	"strings"
	"sync"
	"sync/atomic"
	"time"

	plugin "github.com/hashicorp/go-plugin"
	"github.com/hashicorp/go-plugin/verifhook"
	"google.golang.org/grpc"
	"pgregory.net/rapid"
)

// C20 — concurrent use of clients and brokers is free of data races and panics.

type c20Case struct {
	Proto   string     `json:"proto"`            // netrpc | grpc | grpcmux
	Threads [][]string `json:"threads"`          // one op list per goroutine
	KillAt  int        `json:"kill_at_ms"`       // a separate goroutine calls Kill after this many ms (-1: only at the end)
	HookMs  int        `json:"hook_ms"`          // every 3rd schedule point sleeps this long (host via verifhook.Set, plugin via VERIF_HOOKS)
	Warm    bool       `json:"warm"`             // the client is started before the goroutines begin
	KillN   int        `json:"kill_n,omitempty"` // how many goroutines call Kill at that instant (0/1: one)
}

var c20OpNames = []string{"start", "client", "protocol", "id", "exited", "reattach", "version", "dispense_call", "ping", "nextid", "host_accept", "plugin_accept", "stdio", "kill", "plugin_accept_lazy"}

func c20Gen(t *rapid.T) any {
	c := &c20Case{}
	c.Proto = oneOf(t, "proto", []string{"netrpc", "grpc", "grpcmux"})
	n := 2 + uniform(t, "goroutines", 11)
	for g := 0; g < n; g++ {
		var ops []string
		for i, k := 0, 1+uniform(t, "nops", 7); i < k; i++ {
			ops = append(ops, c20OpNames[weighted(t, "op", 8, 9, 7, 4, 5, 4, 5, 14, 7, 10, 10, 10, 4, 3, 8)])
		}
		c.Threads = append(c.Threads, ops)
	}
	c.KillAt = -1
	if pct(t, "killrace", 45) {
		c.KillAt = uniform(t, "killat", 60)
		if pct(t, "killburst", 50) {
			c.KillN = 2 + uniform(t, "killn", 7)
		}
	}
	c.HookMs = oneOf(t, "hookms", []int{0, 0, 1, 3})
	c.Warm = rapid.Bool().Draw(t, "warm")
	return c
}

// race detector reports of this process and of the plugins it starts go to files in this directory
func raceLogDir() string {
	if g := os.Getenv("GORACE"); strings.Contains(g, "log_path=") {
		p := g[strings.Index(g, "log_path=")+len("log_path="):]
		if i := strings.IndexByte(p, ' '); i >= 0 {
			p = p[:i]
		}
		return filepath.Dir(p)
	}
	return ""
}

// goPluginRace extracts race reports in which both accesses run through go-plugin's own sources.
func goPluginRaces(text string) (inside []string, other int) {
	for _, rep := range strings.Split(text, "==================") {
		if !strings.Contains(rep, "DATA RACE") {
			continue
		}
		// the report is: <access 1 stack> "Previous <access> at ... by ..." <access 2 stack> "Goroutine ... created at" ...
		body := rep
		if i := strings.Index(body, "Goroutine "); i >= 0 {
			body = body[:i]
		}
		parts := strings.SplitN(body, "Previous ", 2)
		isGP := func(s string) bool { return strings.Contains(s, "/repo/") }
		if len(parts) == 2 && isGP(parts[0]) && isGP(parts[1]) {
			inside = append(inside, strings.TrimSpace(rep))
		} else {
			other++
		}
	}
	return
}

var c20Seq int64
var c20HookCount int64

func c20Run(ci any) (out Outcome) {
	c := ci.(*c20Case)
	out.label("proto:%s", c.Proto)
	out.label("goroutines:%d", len(c.Threads))
	if c.KillAt >= 0 {
		out.label("kill-racing")
	}
	logDir := raceLogDir()
	seen := map[string]bool{}
	if logDir != "" {
		for _, f := range listAll(logDir) {
			seen[f] = true
		}
	}
	hookMs := c.HookMs
	verifhook.Set(func(string) {
		if hookMs > 0 && atomic.AddInt64(&c20HookCount, 1)%3 == 0 {
			time.Sleep(time.Duration(hookMs) * time.Millisecond)
		}
	})
	defer verifhook.Set(nil)

	set := SetSpec{Kind: "dual"}
	cc := HostCfg{LegacyVersion: 1, Legacy: &set, Allowed: []string{"netrpc", "grpc"}, Mux: c.Proto == "grpcmux"}.clientConfig()
	cc.Cmd = pluginCmd(PluginSpec{LegacyVersion: 1, Legacy: &set, GRPCServer: c.Proto != "netrpc"})
	if c.HookMs > 0 {
		cc.Cmd.Env = []string{fmt.Sprintf("VERIF_HOOKS=grpcbroker.accept.listening=sleep:%dms;grpcbroker.dial.gotinfo=sleep:%dms;muxbroker.accept.taken=sleep:%dms;grpcstdio.chunk=sleep:%dms", c.HookMs, c.HookMs, c.HookMs, c.HookMs)}
	}
	cl := plugin.NewClient(cc)
	defer killBounded(cl, 25*time.Second)
	if c.Warm {
		if _, _, err := dispense(cl, "p"); err != nil {
			out.violate("could not start the plugin: %v", firstLine(err))
			return
		}
	}
	var muxSeq sync.Mutex // multiplexed establishments are sequential by contract
	var idMu sync.Mutex
	hostIDs, plugIDs := map[uint32]int{}, map[uint32]int{}
	var nextBrokerID uint32 = 5000
	type span struct{ s, e time.Time }
	var spanMu sync.Mutex
	var spans [][]span = make([][]span, len(c.Threads))
	var panics atomic.Value

	thread := func(g int, ops []string) {
		var h Handle
		var cp plugin.ClientProtocol
		get := func() bool {
			if h != nil {
				return true
			}
			hh, p, err := dispense(cl, "p")
			if err != nil {
				return false
			}
			h, cp = hh, p
			return true
		}
		for _, op := range ops {
			st := time.Now()
			func() {
				defer func() {
					if r := recover(); r != nil {
						panics.Store(fmt.Sprintf("%s panicked: %v", op, r))
					}
				}()
				switch op {
				case "start":
					cl.Start()
				case "client":
					cl.Client()
				case "protocol":
					cl.Protocol()
				case "id":
					cl.ID()
				case "exited":
					cl.Exited()
				case "reattach":
					cl.ReattachConfig()
				case "version":
					// documented precondition: only valid after Start has been called (and returned)
					cl.Start()
					cl.NegotiatedVersion()
				case "kill":
					cl.Kill()
				case "dispense_call":
					h = nil
					if get() {
						h.DoT(Cmd{Op: "tag"}, 10*time.Second)
					}
				case "ping":
					if get() {
						cp.Ping()
					}
				case "stdio":
					if get() {
						h.DoT(Cmd{Op: "write", Writes: []Write{{Stream: "out", Data: []byte("x\n")}, {Stream: "err", Data: []byte("y\n")}}}, 10*time.Second)
					}
				case "nextid":
					if get() {
						// bursts, so that allocations of different goroutines really overlap
						local := make([]uint32, 0, 400)
						for i := 0; i < 400; i++ {
							local = append(local, hostNextID(h))
						}
						idMu.Lock()
						for _, id := range local {
							hostIDs[id]++
						}
						idMu.Unlock()
						if r, err := h.DoT(Cmd{Op: "nextid", N: 400}, 10*time.Second); err == nil {
							idMu.Lock()
							for _, s := range r.List {
								if v, err := strconv.Atoi(s); err == nil {
									plugIDs[uint32(v)]++
								}
							}
							idMu.Unlock()
						}
					}
				case "plugin_accept_lazy":
					// The plugin accepts, the host's Dial returns (gRPC dials in the background, so the
					// connection itself may not be up yet) and only then is the next establishment allowed
					// to begin - the documented rule for multiplexing; the first call comes afterwards.
					if get() {
						id := atomic.AddUint32(&nextBrokerID, 1)
						gh, isGRPC := h.(*grpcHandle)
						if !isGRPC {
							if _, err := h.DoT(Cmd{Op: "broker_accept", ID: id}, 10*time.Second); err == nil {
								within(12*time.Second, func() { c14HostDial(h, id) })
							}
							break
						}
						if c.Proto == "grpcmux" {
							muxSeq.Lock()
						}
						_, err := h.DoT(Cmd{Op: "broker_accept", ID: id}, 10*time.Second)
						var bc *grpc.ClientConn
						if err == nil {
							bc, err = gh.broker.Dial(id)
						}
						if c.Proto == "grpcmux" {
							muxSeq.Unlock()
						}
						if err == nil && bc != nil {
							(&grpcHandle{cc: bc, service: "verif.Brokered"}).DoT(Cmd{Op: "tag"}, 12*time.Second)
							bc.Close()
						}
					}
				case "host_accept", "plugin_accept":
					if get() {
						id := atomic.AddUint32(&nextBrokerID, 1)
						if c.Proto == "grpcmux" {
							muxSeq.Lock()
							defer muxSeq.Unlock()
						}
						if op == "host_accept" {
							c14HostAccept(h, id)
							h.DoT(Cmd{Op: "broker_dial", ID: id}, 12*time.Second)
						} else {
							if _, err := h.DoT(Cmd{Op: "broker_accept", ID: id}, 10*time.Second); err == nil {
								within(12*time.Second, func() { c14HostDial(h, id) })
							}
						}
					}
				}
			}()
			spanMu.Lock()
			spans[g] = append(spans[g], span{st, time.Now()})
			spanMu.Unlock()
		}
	}
	var wg sync.WaitGroup
	for g, ops := range c.Threads {
		wg.Add(1)
		go func(g int, ops []string) { defer wg.Done(); thread(g, ops) }(g, ops)
	}
	if c.KillAt >= 0 {
		// one or several goroutines call Kill at the same instant (released together)
		n := max(c.KillN, 1)
		gate := make(chan struct{})
		for i := 0; i < n; i++ {
			wg.Add(1)
			go func() {
				defer wg.Done()
				defer func() {
					if r := recover(); r != nil {
						panics.Store(fmt.Sprintf("Kill panicked: %v", r))
					}
				}()
				<-gate
				cl.Kill()
			}()
		}
		wg.Add(1)
		go func() {
			defer wg.Done()
			time.Sleep(time.Duration(c.KillAt) * time.Millisecond)
			close(gate)
		}()
	}
	if _, ok := within(90*time.Second, wg.Wait); !ok {
		out.Slow = "the concurrent program did not finish within 90 s"
		return
	}
	killBounded(cl, 25*time.Second)
	// overlap: at least two goroutines had operations running at the same time
	overlap := false
	for a := 0; a < len(spans) && !overlap; a++ {
		for b := a + 1; b < len(spans) && !overlap; b++ {
			for _, x := range spans[a] {
				for _, y := range spans[b] {
					if x.s.Before(y.e) && y.s.Before(x.e) {
						overlap = true
					}
				}
			}
		}
	}
	out.NonTrivial = overlap
	if p := panics.Load(); p != nil {
		out.violate("%v (program %+v)", p, *c)
		return
	}
	for name, m := range map[string]map[uint32]int{"host": hostIDs, "plugin": plugIDs} {
		var ids []int
		for id, n := range m {
			if n > 1 {
				ids = append(ids, int(id))
			}
		}
		sort.Ints(ids)
		if len(ids) > 0 {
			out.violate("NextId on the %s broker returned the same id more than once: %v", name, ids)
			return
		}
	}
	// race reports written by this host process or by the plugin during the case
	if logDir != "" {
		time.Sleep(30 * time.Millisecond) // the plugin writes its report when it exits
		for _, f := range listAll(logDir) {
			if seen[f] || !strings.HasPrefix(f, "race") {
				continue
			}
			b, _ := os.ReadFile(filepath.Join(logDir, f))
			inside, other := goPluginRaces(string(b))
			if len(inside) > 0 {
				out.violate("data race inside go-plugin (%d report(s) in %s, %d more outside go-plugin); first:\n%s", len(inside), f, other, trimStack(inside[0]))
				return
			}
			if other > 0 {
				out.label("race-report-outside-go-plugin")
			}
		}
	}
	return
}

var propC20 = register(&Prop{
	ID: "C20", Gen: c20Gen, New: func() any { return &c20Case{} }, Run: c20Run,
	Iso: true, IsoTimeout: 150 * time.Second,
	IsoEnv: nil,
	Rule: "generated concurrent programs under the race detector (host and plugin are both the -race build): 2-12 goroutines, each with 1-7 operations over {Start, Client, Protocol, ID, Exited, ReattachConfig, NegotiatedVersion, Kill, dispense+call, Ping, NextId on both brokers, brokered accept+dial in both directions with distinct ids (serialised when multiplexing, as documented), synced stdio writes}, optionally a Kill racing from a separate goroutine after 0-59 ms, on a cold or warm client, with small sleeps injected at every third schedule point on both sides. " +
		"Oracle: no race report (GORACE log files of host and plugin) in which both accesses run through go-plugin's sources, no panic / fatal runtime error (isolated host; conclusive without reproduction), no id returned twice by NextId. Non-trivial: operations of at least two goroutines overlapped in time (measured).",
	Assumptions: []string{"schedules are sampled, not enumerated; a race whose window no hook widens can be missed", "race reports that do not involve go-plugin code on both sides are counted, not reported"},
})
