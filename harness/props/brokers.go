package props

// Shared machinery for the gRPC broker checks (C07, C08, C09, C20): an
// in-process host/plugin pair with both brokers in hand, and a uniform view of
// "one end of a broker" whether it is local or inside a plugin subprocess.

import (
	"context"
	"encoding/json"
	"fmt"
	"os"
	"sync"
	"sync/atomic"
	"testing"
	"time"

	plugin "github.com/hashicorp/go-plugin"
	"google.golang.org/grpc"
)

// fatalTB satisfies testing.TB for the library's exported test helpers; only
// Fatal/Fatalf are used by them.
type fatalTB struct{ testing.TB }

func (fatalTB) Fatal(args ...any)                 { panic(fmt.Sprint(args...)) }
func (fatalTB) Fatalf(format string, args ...any) { panic(fmt.Sprintf(format, args...)) }
func (fatalTB) Helper()                           {}

// brokerCapture is a GRPCPlugin that hands both brokers to the harness.
type brokerCapture struct {
	plugin.NetRPCUnsupportedPlugin
	mu        sync.Mutex
	srvBroker *plugin.GRPCBroker
	cliBroker *plugin.GRPCBroker
	mainImpl  *impl
}

func (b *brokerCapture) GRPCServer(br *plugin.GRPCBroker, s *grpc.Server) error {
	b.mu.Lock()
	b.srvBroker = br
	b.mu.Unlock()
	b.mainImpl = &impl{tag: Tag{Pid: os.Getpid(), Name: "main", Side: "plugin", Proto: "grpc"}, grpcb: br}
	registerHarness(s, "verif.Harness.p", b.mainImpl)
	return nil
}

func (b *brokerCapture) GRPCClient(ctx context.Context, br *plugin.GRPCBroker, cc *grpc.ClientConn) (interface{}, error) {
	b.mu.Lock()
	b.cliBroker = br
	b.mu.Unlock()
	return &grpcHandle{cc: cc, broker: br, ctx: ctx, service: "verif.Harness.p"}, nil
}

// grpcPair is an in-process host/plugin connection (library helper TestPluginGRPCConn).
type grpcPair struct {
	client *plugin.GRPCClient
	server *plugin.GRPCServer
	host   *plugin.GRPCBroker
	plug   *plugin.GRPCBroker
	main   *grpcHandle
}

func newGRPCPair(multiplex bool) (p *grpcPair, err error) {
	defer func() {
		if r := recover(); r != nil {
			err = fmt.Errorf("%v", r)
		}
	}()
	bc := &brokerCapture{}
	c, s := plugin.TestPluginGRPCConn(fatalTB{}, multiplex, map[string]plugin.Plugin{"p": bc})
	raw, derr := c.Dispense("p")
	if derr != nil {
		c.Close()
		return nil, derr
	}
	return &grpcPair{client: c, server: s, host: bc.cliBroker, plug: bc.srvBroker, main: raw.(*grpcHandle)}, nil
}

func (p *grpcPair) close() {
	done := make(chan struct{})
	go func() {
		p.client.Close()
		p.server.Stop()
		close(done)
	}()
	select {
	case <-done:
	case <-time.After(10 * time.Second):
	}
}

// brokerEnd is one side of a gRPC broker.
type brokerEnd interface {
	// accept: after delay, AcceptAndServe a tag service on id (asynchronous).
	accept(id uint32, delay time.Duration)
	// dial: after delay, Dial id and make the first call; returns who answered.
	dial(id uint32, delay time.Duration) (Tag, error)
	side() string
}

type localEnd struct {
	br   *plugin.GRPCBroker
	name string // host | plugin
	// servers started on this end, to stop them at the end of the case
	mu      sync.Mutex
	stops   []func()
	conns   sync.Map // id -> *grpc.ClientConn kept open for later calls
	answers int64
	// dialOpts: when non-nil every dial goes through DialWithOptions(id, dialOpts...) - one slice,
	// with spare capacity, shared by all (possibly concurrent) dials of this end, as a caller that
	// keeps its dial options in one place would do
	dialOpts []grpc.DialOption
}

func (e *localEnd) side() string { return e.name }

func (e *localEnd) accept(id uint32, delay time.Duration) {
	go func() {
		time.Sleep(delay)
		e.br.AcceptAndServe(id, func(opts []grpc.ServerOption) *grpc.Server {
			s := grpc.NewServer(opts...)
			registerHarness(s, "verif.Brokered", &impl{tag: Tag{Pid: os.Getpid(), Broker: id, Side: e.name, Proto: "grpc", Serial: atomic.AddInt64(&globalSerial, 1)}})
			e.mu.Lock()
			e.stops = append(e.stops, s.Stop)
			e.mu.Unlock()
			return s
		})
	}()
}

// acceptSlow: after delay, Accept(id) and only serveDelay later start serving the listener (a caller
// that uses Accept and its own grpc.Server instead of AcceptAndServe, and is slow to get there).
// Only for ends without TLS (the in-process pair).
func (e *localEnd) acceptSlow(id uint32, delay, serveDelay time.Duration) {
	go func() {
		time.Sleep(delay)
		ln, err := e.br.Accept(id)
		if err != nil {
			return
		}
		time.Sleep(serveDelay)
		s := grpc.NewServer()
		registerHarness(s, "verif.Brokered", &impl{tag: Tag{Pid: os.Getpid(), Broker: id, Side: e.name, Proto: "grpc", Serial: atomic.AddInt64(&globalSerial, 1)}})
		e.mu.Lock()
		e.stops = append(e.stops, s.Stop)
		e.mu.Unlock()
		s.Serve(ln)
	}()
}

func (e *localEnd) dial(id uint32, delay time.Duration) (Tag, error) {
	time.Sleep(delay)
	var cc *grpc.ClientConn
	var err error
	if e.dialOpts != nil {
		cc, err = e.br.DialWithOptions(id, e.dialOpts...)
	} else {
		cc, err = e.br.Dial(id)
	}
	if err != nil {
		return Tag{}, fmt.Errorf("Dial(%d): %w", id, err)
	}
	e.conns.Store(id, cc)
	r, err := (&grpcHandle{cc: cc, service: "verif.Brokered"}).DoT(Cmd{Op: "tag"}, 20*time.Second)
	if err != nil {
		return Tag{}, fmt.Errorf("first call on the connection dialled for id %d: %w", id, err)
	}
	return r.Tag, nil
}

// dialRetry: like dial, but the first call is repeated for up to 15 s until it succeeds (a caller
// that retries; gRPC re-dials, and with multiplexing knocks again, in the background).
func (e *localEnd) dialRetry(id uint32, delay time.Duration) (Tag, error) {
	time.Sleep(delay)
	cc, err := e.br.Dial(id)
	if err != nil {
		return Tag{}, fmt.Errorf("Dial(%d): %w", id, err)
	}
	e.conns.Store(id, cc)
	deadline := time.Now().Add(15 * time.Second)
	for {
		r, err := (&grpcHandle{cc: cc, service: "verif.Brokered"}).DoT(Cmd{Op: "tag"}, 10*time.Second)
		if err == nil {
			return r.Tag, nil
		}
		if time.Now().After(deadline) {
			return Tag{}, fmt.Errorf("no call on the connection dialled for id %d succeeded within 15 s: %w", id, err)
		}
		time.Sleep(100 * time.Millisecond)
	}
}

// again makes another call on the connection kept for id.
func (e *localEnd) again(id uint32) (Tag, error) {
	v, ok := e.conns.Load(id)
	if !ok {
		return Tag{}, fmt.Errorf("no connection kept for id %d", id)
	}
	r, err := (&grpcHandle{cc: v.(*grpc.ClientConn), service: "verif.Brokered"}).DoT(Cmd{Op: "tag"}, 20*time.Second)
	return r.Tag, err
}

// cleanupPartial closes every client connection and stops only the servers selected by mask
// (bit i = the i-th server started on this end); the others are left for the library to end.
func (e *localEnd) cleanupPartial(mask int) {
	e.conns.Range(func(_, v any) bool { v.(*grpc.ClientConn).Close(); return true })
	e.mu.Lock()
	for i, s := range e.stops {
		if mask&(1<<uint(i)) != 0 {
			s()
		}
	}
	e.stops = nil
	e.mu.Unlock()
}

func (e *localEnd) cleanup() {
	e.conns.Range(func(_, v any) bool { v.(*grpc.ClientConn).Close(); return true })
	e.mu.Lock()
	for _, s := range e.stops {
		go s()
	}
	e.stops = nil
	e.mu.Unlock()
}

// remoteEnd is the plugin side of a real subprocess, driven through the command service.
type remoteEnd struct{ h Handle }

func (e *remoteEnd) side() string { return "plugin" }
func (e *remoteEnd) accept(id uint32, delay time.Duration) {
	go e.h.DoT(Cmd{Op: "broker_accept", ID: id, N: int(delay / time.Millisecond)}, 30*time.Second)
}
func (e *remoteEnd) dial(id uint32, delay time.Duration) (Tag, error) {
	r, err := e.h.DoT(Cmd{Op: "broker_dial", ID: id, N: int(delay / time.Millisecond)}, 40*time.Second)
	if err != nil {
		return Tag{}, err
	}
	var rr Reply
	if jerr := jsonUnmarshal(r.B, &rr); jerr != nil {
		return Tag{}, jerr
	}
	return rr.Tag, nil
}

func jsonUnmarshal(b []byte, v any) error { return json.Unmarshal(b, v) }
