package props

import (
	"bufio"
	"fmt"
	"io"
	"net"
	"os"
	"os/exec"
	"path/filepath"
	"strconv"
	"strings"
	"sync/atomic"
	"time"

	hclog "github.com/hashicorp/go-hclog"
	plugin "github.com/hashicorp/go-plugin"
	"github.com/hashicorp/go-plugin/runner"
	"pgregory.net/rapid"
)

// C16 — plugin serves only with the right cookie; announces one well-formed line.

type c16Case struct {
	CfgKey   string `json:"cfg_key"`   // ServeConfig.MagicCookieKey (may be empty)
	CfgValue string `json:"cfg_value"` // ServeConfig.MagicCookieValue (may be empty)
	EnvMode  string `json:"env_mode"`  // unset | empty | prefix | suffix | case | other | exact | padded (the value wrapped in blanks, line ends or quotes)
	Pad      int    `json:"pad,omitempty"`
	Kind     string `json:"kind"`     // netrpc | grpc | dual
	GRPC     bool   `json:"grpc"`     // ServeConfig.GRPCServer set
	TLS      string `json:"tls"`      // "" | static | auto (PLUGIN_CLIENT_CERT given)
	Versions []int  `json:"versions"` // versioned sets (empty: legacy version 1)
	MuxEnv   string `json:"mux_env"`  // unset | empty | true | false | junk | 1
	Session  bool   `json:"session"`  // drive a whole client session through a tee-ing runner
}

var c16Seq int64

func c16Gen(t *rapid.T) any {
	c := &c16Case{}
	c.CfgKey = "VC_" + rapid.StringMatching(`[A-Z]{1,8}`).Draw(t, "key")
	c.CfgValue = rapid.StringMatching(`[a-zA-Z0-9]{2,16}`).Draw(t, "value")
	switch weighted(t, "cfgempty", 86, 7, 7) {
	case 1:
		c.CfgKey = ""
	case 2:
		c.CfgValue = ""
	}
	c.EnvMode = []string{"exact", "unset", "empty", "prefix", "suffix", "case", "other", "padded"}[weighted(t, "envmode", 40, 8, 8, 8, 8, 8, 8, 12)]
	if c.EnvMode == "padded" {
		c.Pad = uniform(t, "pad", len(c16Pads))
	}
	c.Kind = oneOf(t, "kind", []string{"netrpc", "grpc", "dual"})
	c.GRPC = c.Kind == "grpc" || rapid.Bool().Draw(t, "grpcserver")
	c.TLS = []string{"", "static", "auto"}[weighted(t, "tls", 60, 20, 20)]
	if pct(t, "versioned", 40) {
		c.Versions = rapid.SliceOfNDistinct(rapid.IntRange(0, 6), 1, 3, rapid.ID[int]).Draw(t, "versions")
	}
	c.MuxEnv = []string{"unset", "empty", "true", "false", "junk", "1"}[weighted(t, "muxenv", 40, 10, 20, 10, 10, 10)]
	c.Session = c.EnvMode == "exact" && c.CfgKey != "" && c.CfgValue != "" && pct(t, "session", 35)
	if c.Session && c.MuxEnv != "unset" && c.MuxEnv != "true" {
		c.MuxEnv = "unset" // a real client either requests multiplexing (true) or does not set the variable
	}
	return c
}

func (c *c16Case) pluginSpec() PluginSpec {
	ps := PluginSpec{CookieKey: c.CfgKey, CookieValue: c.CfgValue, GRPCServer: c.GRPC}
	if c.CfgKey == "" && c.CfgValue == "" {
		// fill() would substitute the defaults; force "both empty" through a sentinel
		ps.CookieKey, ps.CookieValue = "\x00empty", "\x00empty"
	}
	if len(c.Versions) > 0 {
		ps.Versioned = map[int]SetSpec{}
		for _, v := range c.Versions {
			ps.Versioned[v] = SetSpec{Kind: c.Kind}
		}
	} else {
		ps.LegacyVersion = 1
		ps.Legacy = &SetSpec{Kind: c.Kind}
	}
	if c.TLS == "static" {
		ps.TLSCert, ps.TLSKey, _ = staticTLSFiles()
	}
	return ps
}

// what a shell script, a .env file or a container spec easily adds around a value
var c16Pads = [][2]string{{" ", ""}, {"", " "}, {"", "\n"}, {"", "\r\n"}, {"\t", ""}, {" ", " "}, {"\"", "\""}, {"'", "'"}, {"", "\t"}, {"\n", ""}}

func (c *c16Case) cookieEnv() (string, bool) {
	v := c.CfgValue
	switch c.EnvMode {
	case "unset":
		return "", false
	case "empty":
		return "", true
	case "prefix":
		if v == "" {
			return "", true
		}
		return v[:len(v)-1], true
	case "suffix":
		return v + "x", true
	case "case":
		sw := strings.ToUpper(v)
		if sw == v {
			sw = strings.ToLower(v)
		}
		if sw == v {
			sw = v + "Y"
		}
		return sw, true
	case "other":
		return "someothervalue", true
	case "padded":
		p := c16Pads[c.Pad%len(c16Pads)]
		return p[0] + v + p[1], true
	}
	return v, true
}

func c16Run(ci any) (out Outcome) {
	c := ci.(*c16Case)
	caseDir := filepath.Join(scratchDir(), fmt.Sprintf("c16-%d", atomic.AddInt64(&c16Seq, 1)))
	os.MkdirAll(caseDir, 0o755)
	defer os.RemoveAll(caseDir)
	out.label("env:%s", c.EnvMode)
	out.label("mux:%s", c.MuxEnv)
	out.label("tls:%s", c.TLS)
	out.NonTrivial = c.EnvMode == "padded" || c.EnvMode == "prefix" || c.EnvMode == "suffix" || c.EnvMode == "case" || (c.EnvMode == "exact" && (c.MuxEnv != "unset" || c.TLS != ""))
	if c.Session {
		out.label("session")
		return c16Session(c, caseDir, out)
	}
	ps := c.pluginSpec()
	wantProto := c02Proto(c.Kind, c.GRPC)
	cmd := pluginCmd(ps)
	env := []string{"PATH=" + os.Getenv("PATH"), "TMPDIR=" + caseDir, "PLUGIN_PROTOCOL_VERSIONS=0,1,2,3,4,5,6"}
	if c.CfgKey != "" {
		if v, set := c.cookieEnv(); set {
			env = append(env, c.CfgKey+"="+v)
		}
	}
	muxVal, muxSet := map[string]string{"empty": "", "true": "true", "false": "false", "junk": "junk", "1": "1"}[c.MuxEnv]
	if muxSet {
		env = append(env, "PLUGIN_MULTIPLEX_GRPC="+muxVal)
	}
	if c.TLS == "auto" {
		certPEM, _, err := genCertPEM("localhost")
		if err != nil {
			panic(err)
		}
		env = append(env, "PLUGIN_CLIENT_CERT="+string(certPEM))
	}
	cmd.Env = env
	// plain pipes and files: exactly one Wait, no copier goroutines inside os/exec
	pr, pw, err := os.Pipe()
	if err != nil {
		panic(err)
	}
	defer pr.Close()
	cmd.Stdout = pw
	stderrPath := filepath.Join(scratchDir(), fmt.Sprintf("c16-stderr-%d", atomic.AddInt64(&c16Seq, 1)))
	stderrF, err := os.Create(stderrPath)
	if err != nil {
		panic(err)
	}
	defer os.Remove(stderrPath)
	cmd.Stderr = stderrF
	if err := cmd.Start(); err != nil {
		panic(err)
	}
	pw.Close()
	stderrF.Close()
	exited := make(chan struct{})
	go func() {
		cmd.Wait()
		close(exited)
	}()
	defer func() {
		cmd.Process.Kill()
		<-exited
	}()
	stderrText := func() []byte {
		b, _ := os.ReadFile(stderrPath)
		return b
	}
	stdout := pr
	serves := c.EnvMode == "exact" && c.CfgKey != "" && c.CfgValue != ""
	rd := bufio.NewReader(stdout)
	type lineRes struct {
		line string
		err  error
	}
	lc := make(chan lineRes, 1)
	go func() {
		l, err := rd.ReadString('\n')
		lc <- lineRes{l, err}
	}()
	var lr lineRes
	select {
	case lr = <-lc:
	case <-time.After(15 * time.Second):
		out.Slow = "the plugin neither exited nor printed a line within 15 s"
		return
	}
	if !serves {
		// wrong or missing cookie: exit status 1, nothing on stdout, no listener
		select {
		case <-exited:
		case <-time.After(10 * time.Second):
			out.violate("plugin started with cookie mode %q (configured key %q value %q) keeps running instead of exiting; stdout %q", c.EnvMode, c.CfgKey, c.CfgValue, lr.line)
			return
		}
		rest, _ := io.ReadAll(rd) // the only writer has exited
		if code := cmd.ProcessState.ExitCode(); code != 1 {
			out.violate("plugin without the right cookie (mode %s) exited with status %d, expected 1; stderr %q", c.EnvMode, code, clip(stderrText()))
			return
		}
		if lr.line != "" || len(rest) != 0 {
			out.violate("plugin without the right cookie (mode %s) wrote to stdout: %q", c.EnvMode, lr.line+string(rest))
			return
		}
		ents, _ := os.ReadDir(caseDir)
		if len(ents) != 0 {
			out.violate("plugin without the right cookie (mode %s) created %s in its socket directory", c.EnvMode, ents[0].Name())
		}
		return
	}
	if lr.err != nil {
		out.violate("plugin with the right cookie printed no handshake line: %v; stderr %q", lr.err, clip(stderrText()))
		return
	}
	line := strings.TrimSuffix(lr.line, "\n")
	fields := strings.Split(line, "|")
	wantFields := 6
	if muxSet && muxVal != "" {
		wantFields = 7
	}
	if len(fields) != wantFields {
		out.violate("handshake line %q has %d fields, expected %d (PLUGIN_MULTIPLEX_GRPC %s)", clip([]byte(line)), len(fields), wantFields, c.MuxEnv)
		return
	}
	if fields[0] != "1" {
		out.violate("core protocol field is %q", fields[0])
		return
	}
	wantV := 1
	if len(c.Versions) > 0 {
		wantV = c.Versions[0]
		for _, v := range c.Versions {
			if v > wantV {
				wantV = v
			}
		}
	}
	if v, err := strconv.Atoi(fields[1]); err != nil || v != wantV {
		out.violate("version field %q, expected %d", fields[1], wantV)
		return
	}
	if fields[4] != wantProto {
		out.violate("protocol field %q, expected %q", fields[4], wantProto)
		return
	}
	if (c.TLS == "auto") != (len(fields[5]) > 50) {
		out.violate("certificate field has %d characters with TLS mode %q", len(fields[5]), c.TLS)
		return
	}
	if wantFields == 7 {
		if b, err := strconv.ParseBool(fields[6]); err != nil || !b {
			out.violate("multiplexing field is %q", fields[6])
			return
		}
	}
	// the announced address accepts a connection the moment the line is out
	conn, err := net.DialTimeout(fields[2], fields[3], 5*time.Second)
	if err != nil {
		out.violate("the announced address %s %s does not accept a connection when the line appears: %v", fields[2], fields[3], err)
		return
	}
	conn.Close()
	if fields[2] == "unix" && filepath.Dir(fields[3]) != caseDir {
		out.violate("socket %s is outside the plugin's temp dir %s", fields[3], caseDir)
	}
	return
}

// c16Session runs start/dispense/stdio/Kill through a tee-ing runner and checks
// the raw stdout of the plugin is the handshake line and nothing else.
func c16Session(c *c16Case, caseDir string, out Outcome) Outcome {
	ps := c.pluginSpec()
	wantProto := c02Proto(c.Kind, c.GRPC)
	mux := c.MuxEnv == "true" && wantProto == "grpc"
	raw := &safeBuf{}
	var er *execRunner
	cc := &plugin.ClientConfig{
		HandshakeConfig:     plugin.HandshakeConfig{ProtocolVersion: 1, MagicCookieKey: c.CfgKey, MagicCookieValue: c.CfgValue},
		AllowedProtocols:    []plugin.Protocol{plugin.ProtocolNetRPC, plugin.ProtocolGRPC},
		Logger:              nullLogger(),
		StartTimeout:        10 * time.Second,
		GRPCBrokerMultiplex: mux,
		UnixSocketConfig:    &plugin.UnixSocketConfig{TempDir: caseDir},
		RunnerFunc: func(_ hclog.Logger, hc *exec.Cmd, _ string) (runner.Runner, error) {
			pc := pluginCmd(ps)
			pc.Env = append(os.Environ(), hc.Env...)
			r, err := newExecRunner(pc)
			if err != nil {
				return nil, err
			}
			r.rawStdout = raw
			er = r
			return r, nil
		},
	}
	hostKind := "dual"
	if len(c.Versions) > 0 {
		cc.VersionedPlugins = map[int]plugin.PluginSet{}
		for _, v := range c.Versions {
			cc.VersionedPlugins[v] = buildSet(SetSpec{Kind: hostKind}, v, "host")
		}
	} else {
		cc.Plugins = buildSet(SetSpec{Kind: hostKind}, 1, "host")
	}
	switch c.TLS {
	case "static":
		cc.TLSConfig = hostStaticTLS()
	case "auto":
		cc.AutoMTLS = true
	}
	cl := plugin.NewClient(cc)
	killed := false
	defer func() {
		if !killed {
			killBounded(cl, 20*time.Second)
		}
	}()
	var h Handle
	var derr error
	if _, ok := within(30*time.Second, func() { h, _, derr = dispense(cl, "p") }); !ok {
		out.Slow = "start+dispense did not return within 30 s"
		return out
	}
	if derr != nil {
		out.violate("session: dispense failed: %v", derr)
		return out
	}
	if _, err := h.DoT(Cmd{Op: "write", Writes: []Write{{Stream: "out", Data: []byte("to synced stdout\n")}, {Stream: "err", Data: []byte("to synced stderr\n")}}}, 20*time.Second); err != nil {
		out.violate("session: stdio write call failed: %v", err)
		return out
	}
	h.DoT(Cmd{Op: "tag"}, 20*time.Second)
	killed = true
	if _, ok := killBounded(cl, 20*time.Second); !ok {
		out.Slow = "Kill did not return within 20 s"
		return out
	}
	_ = er
	got := string(raw.Bytes())
	nl := strings.IndexByte(got, '\n')
	if nl < 0 {
		out.violate("session: raw stdout has no complete line: %q", clip([]byte(got)))
		return out
	}
	if rest := got[nl+1:]; rest != "" {
		out.violate("session: the plugin's real stdout carries more than the handshake line: %q", clip([]byte(rest)))
		return out
	}
	fields := strings.Split(got[:nl], "|")
	wantFields := 6
	if mux {
		wantFields = 7
	}
	if len(fields) != wantFields {
		out.violate("session: handshake line %q has %d fields, expected %d (mux requested: %v)", clip([]byte(got[:nl])), len(fields), wantFields, mux)
	}
	return out
}

var propC16 = register(&Prop{
	ID:  "C16",
	Gen: c16Gen,
	New: func() any { return &c16Case{} },
	Run: c16Run,
	Rule: "rapid draws the configured cookie key/value (incl. empty key or value), the environment's cookie (unset, empty, prefix, suffix, case change, other, exact, exact value wrapped in blanks / line ends / quotes), a serve configuration (plugin-type kind, GRPCServer, TLS none/static/AutoMTLS cert given, legacy or versioned sets) " +
		"and PLUGIN_MULTIPLEX_GRPC (unset, empty, true, false, junk, 1). The real plugin binary is executed directly with exactly that environment, or (right cookie) driven through a whole client session behind a stdout-teeing runner. " +
		"Oracle: wrong cookie => exit status 1, empty stdout, no file in its socket directory; right cookie => first line has exactly 6 fields (7 iff the mux variable is non-empty) with the expected core/version/protocol/cert fields, an immediate connect to the announced address succeeds, " +
		"and over a whole session (dispense, synced stdio traffic, graceful Kill) the raw stdout is that line and nothing else. Non-trivial: near-miss cookie, or right cookie with the mux variable set or TLS on.",
})
