package props

import "pgregory.net/rapid"

// rapid's IntRange / SampledFrom are deliberately biased towards small values
// and the first elements. Where the harness wants a stated probability it
// builds a uniform number from fair coin flips (which shrink towards 0).

// uniform draws a uniform integer in [0, n) for n <= 4096.
func uniform(t *rapid.T, label string, n int) int {
	v := 0
	for i := 0; i < 12; i++ {
		v <<= 1
		if rapid.Bool().Draw(t, label) {
			v |= 1
		}
	}
	return v * n / 4096
}

// pct is true with probability p percent; it shrinks towards false.
func pct(t *rapid.T, label string, p float64) bool {
	return float64(uniform(t, label, 4096)) >= 4096*(1-p/100)
}

// weighted returns an index chosen with the given integer weights; index 0 is
// the shrink target.
func weighted(t *rapid.T, label string, weights ...int) int {
	total := 0
	for _, w := range weights {
		total += w
	}
	v := uniform(t, label, 4096) * total / 4096
	for i, w := range weights {
		if v < w {
			return i
		}
		v -= w
	}
	return len(weights) - 1
}

// oneOf picks uniformly from xs.
func oneOf[T any](t *rapid.T, label string, xs []T) T {
	return xs[uniform(t, label, len(xs))]
}
