package props

import (
	"bytes"
	"encoding/binary"
	"fmt"
	"io"
	"net"
	"net/rpc"
	"strings"
	"sync"
	"time"

	plugin "github.com/hashicorp/go-plugin"
	"github.com/hashicorp/yamux"
	"pgregory.net/rapid"
)

// C09 (wire level) — "peer closes mid-negotiation": the library's net/rpc server side (RPCServer +
// its MuxBroker) talks to a peer that the harness drives at the level of docs/internals.md: a yamux
// session whose streams start with the 4-byte little-endian broker id and are acknowledged with the
// same 4 bytes. Through the public API a negotiation cannot be abandoned half-way (Dial writes the
// id at once), so this is the only way to generate that part of the property's history alphabet.

type c09RawOp struct {
	Kind  string `json:"kind"`  // halfopen | orphan_dial | pair_in | pair_out
	Bytes int    `json:"bytes"` // halfopen: id bytes written before the stream is closed (0..3)
	Reset bool   `json:"reset"` // halfopen: the whole id is never sent and the stream is closed after a pause of PauseMs
	Pause int    `json:"pause_ms"`
}

type c09RawCase struct {
	Ops []c09RawOp `json:"ops"`
}

func c09RawGen(t *rapid.T) any {
	c := &c09RawCase{}
	n := 1 + uniform(t, "n", 8)
	for i := 0; i < n; i++ {
		op := c09RawOp{Kind: []string{"halfopen", "orphan_dial", "pair_in", "pair_out"}[weighted(t, "kind", 50, 15, 20, 15)]}
		if op.Kind == "halfopen" {
			op.Bytes = uniform(t, "bytes", 4)
			op.Pause = oneOf(t, "pause", []int{0, 0, 1, 20})
		}
		c.Ops = append(c.Ops, op)
	}
	return c
}

// rawCapture hands the library-side broker of a dispense to the harness.
type rawCapture struct {
	mu        sync.Mutex
	srvBroker *plugin.MuxBroker
}

func (m *rawCapture) Server(b *plugin.MuxBroker) (interface{}, error) {
	m.mu.Lock()
	if m.srvBroker == nil {
		m.srvBroker = b
	}
	m.mu.Unlock()
	return &RPCService{im: &impl{tag: Tag{Name: "ctl", Side: "plugin", Proto: "netrpc"}, mux: b}}, nil
}

func (m *rawCapture) Client(b *plugin.MuxBroker, c *rpc.Client) (interface{}, error) {
	return nil, fmt.Errorf("not used")
}

// rawPeer is the harness's end of the connection: yamux client + net/rpc control client.
type rawPeer struct {
	sess    *yamux.Session
	control *rpc.Client
}

func newRawPeer(conn net.Conn) (*rawPeer, error) {
	cfg := yamux.DefaultConfig()
	cfg.LogOutput = io.Discard
	sess, err := yamux.Client(conn, cfg)
	if err != nil {
		return nil, err
	}
	control, err := sess.Open()
	if err != nil {
		return nil, err
	}
	for i := 0; i < 2; i++ { // stdout, stderr
		s, err := sess.Open()
		if err != nil {
			return nil, err
		}
		go io.Copy(io.Discard, s)
	}
	return &rawPeer{sess: sess, control: rpc.NewClient(control)}, nil
}

// dial: open a stream for id, wait for the acknowledgement.
func (p *rawPeer) dial(id uint32, d time.Duration) (net.Conn, error) {
	s, err := p.sess.Open()
	if err != nil {
		return nil, err
	}
	s.SetDeadline(time.Now().Add(d))
	if err := binary.Write(s, binary.LittleEndian, id); err != nil {
		s.Close()
		return nil, err
	}
	var ack uint32
	if err := binary.Read(s, binary.LittleEndian, &ack); err != nil {
		s.Close()
		return nil, fmt.Errorf("no acknowledgement for id %d: %w", id, err)
	}
	if ack != id {
		s.Close()
		return nil, fmt.Errorf("acknowledgement %d for id %d", ack, id)
	}
	s.SetDeadline(time.Time{})
	return s, nil
}

func c09RawRun(ci any) (out Outcome) {
	c := ci.(*c09RawCase)
	c1, c2 := net.Pipe()
	defer c1.Close()
	defer c2.Close()
	ctl := &rawCapture{}
	srv := &plugin.RPCServer{Plugins: map[string]plugin.Plugin{"ctl": ctl}, Stdout: new(bytes.Buffer), Stderr: new(bytes.Buffer)}
	go srv.ServeConn(c2)
	peer, err := newRawPeer(c1)
	if err != nil {
		out.violate("could not set up the raw peer: %v", err)
		return
	}
	defer peer.sess.Close()
	// streams the library opens towards the peer (its Dial): id, then wait for our acknowledgement
	type inbound struct {
		id uint32
		s  net.Conn
	}
	inCh := make(chan inbound, 16)
	go func() {
		for {
			s, err := peer.sess.Accept()
			if err != nil {
				return
			}
			go func() {
				var id uint32
				if binary.Read(s, binary.LittleEndian, &id) != nil {
					s.Close()
					return
				}
				inCh <- inbound{id, s}
			}()
		}
	}()
	var did uint32
	if _, ok := within(5*time.Second, func() { err = peer.control.Call("Dispenser.Dispense", "ctl", &did) }); !ok || err != nil {
		out.violate("Dispense over the control stream failed: %v", err)
		return
	}
	if conn, err := peer.dial(did, 3*time.Second); err == nil {
		defer conn.Close()
	}
	ctl.mu.Lock()
	br := ctl.srvBroker
	ctl.mu.Unlock()
	if br == nil {
		out.violate("the plugin side never got its broker")
		return
	}

	// matched pair, the peer dialling: the library accepts id, we dial it, bytes flow both ways
	pairIn := func(id uint32, what string) string {
		type res struct {
			c   net.Conn
			err error
		}
		ch := make(chan res, 1)
		go func() { c, err := br.Accept(id); ch <- res{c, err} }()
		conn, err := peer.dial(id, 4*time.Second)
		if err != nil {
			return fmt.Sprintf("%s: dialling id %d towards an accepting library side failed: %v", what, id, err)
		}
		defer conn.Close()
		select {
		case r := <-ch:
			if r.err != nil {
				return fmt.Sprintf("%s: Accept(%d) failed although the peer dialled: %v", what, id, r.err)
			}
			defer r.c.Close()
			go r.c.Write([]byte("pong"))
			conn.Write([]byte("ping"))
			buf := make([]byte, 4)
			r.c.SetReadDeadline(time.Now().Add(3 * time.Second))
			if _, err := io.ReadFull(r.c, buf); err != nil || string(buf) != "ping" {
				return fmt.Sprintf("%s: accepted connection of id %d did not deliver the dialler's bytes (%q, %v)", what, id, buf, err)
			}
			conn.SetReadDeadline(time.Now().Add(3 * time.Second))
			if _, err := io.ReadFull(conn, buf); err != nil || string(buf) != "pong" {
				return fmt.Sprintf("%s: dialled connection of id %d did not deliver the acceptor's bytes (%q, %v)", what, id, buf, err)
			}
		case <-time.After(7 * time.Second):
			return fmt.Sprintf("%s: Accept(%d) did not return within 7 s although the peer dialled and was acknowledged", what, id)
		}
		return ""
	}
	// matched pair, the library dialling
	pairOut := func(id uint32, what string) string {
		type res struct {
			c   net.Conn
			err error
		}
		ch := make(chan res, 1)
		go func() { c, err := br.Dial(id); ch <- res{c, err} }()
		select {
		case in := <-inCh:
			if in.id != id {
				return fmt.Sprintf("%s: the library dialled id %d but announced id %d on the wire", what, id, in.id)
			}
			binary.Write(in.s, binary.LittleEndian, id)
			defer in.s.Close()
		case <-time.After(5 * time.Second):
			return fmt.Sprintf("%s: Dial(%d) opened no stream towards the peer within 5 s", what, id)
		}
		select {
		case r := <-ch:
			if r.err != nil {
				return fmt.Sprintf("%s: Dial(%d) failed although the peer acknowledged: %v", what, id, r.err)
			}
			r.c.Close()
		case <-time.After(5 * time.Second):
			return fmt.Sprintf("%s: Dial(%d) did not return within 5 s of the acknowledgement", what, id)
		}
		return ""
	}

	id := uint32(2000)
	half := 0
	var hist []string
	for _, op := range c.Ops {
		id++
		switch op.Kind {
		case "halfopen":
			half++
			hist = append(hist, fmt.Sprintf("halfopen(%d bytes, pause %d ms)", op.Bytes, op.Pause))
			s, err := peer.sess.Open()
			if err != nil {
				out.violate("could not open a stream: %v", err)
				return
			}
			var b [4]byte
			binary.LittleEndian.PutUint32(b[:], id)
			if op.Bytes > 0 {
				s.Write(b[:op.Bytes])
			}
			if op.Pause > 0 {
				time.Sleep(time.Duration(op.Pause) * time.Millisecond)
			}
			s.Close()
		case "orphan_dial":
			hist = append(hist, "orphan_dial")
			s, err := peer.sess.Open()
			if err == nil {
				binary.Write(s, binary.LittleEndian, id)
				s.Close()
			}
		case "pair_in":
			hist = append(hist, "pair_in")
			if msg := pairIn(id, "history step "+fmt.Sprint(len(hist))+" of "+strings.Join(hist, ", ")); msg != "" {
				out.violate("%s", msg)
				return
			}
		case "pair_out":
			hist = append(hist, "pair_out")
			if msg := pairOut(id, "history step "+fmt.Sprint(len(hist))+" of "+strings.Join(hist, ", ")); msg != "" {
				out.violate("%s", msg)
				return
			}
		}
	}
	out.NonTrivial = half > 0
	out.label("halfopen:%d", min(half, 4))
	time.Sleep(2 * time.Millisecond)
	after := "after the history [" + strings.Join(hist, ", ") + "] a fresh matched pair"
	if msg := pairIn(900001, after+" (peer dials)"); msg != "" {
		out.violate("%s", msg)
		return
	}
	if msg := pairOut(900002, after+" (library dials)"); msg != "" {
		out.violate("%s", msg)
		return
	}
	// the control connection still answers
	var did2 uint32
	if _, ok := within(5*time.Second, func() { err = peer.control.Call("Dispenser.Dispense", "ctl", &did2) }); !ok || err != nil {
		out.violate("%s works but the control stream no longer answers: %v", after, err)
	}
	return
}

var propC09Raw = register(&Prop{
	ID:   "C09",
	Name: "C09Raw",
	Gen:  c09RawGen,
	New:  func() any { return &c09RawCase{} },
	Run:  c09RawRun,
	Rule: "wire-level histories against the library's net/rpc server side (RPCServer.ServeConn over net.Pipe, its MuxBroker captured through Plugin.Server): the harness is the peer and speaks the documented " +
		"wire protocol (yamux streams opened with a 4-byte little-endian id, acknowledged with the same bytes). rapid draws 1-8 steps over {stream opened and closed after 0-3 of the 4 id bytes, optionally after a pause; " +
		"complete dial to an id nobody accepts, then closed; matched pair with the peer dialling; matched pair with the library dialling}. Oracle: every matched pair inside the history and a fresh pair in each direction afterwards " +
		"complete within seconds with bytes delivered both ways, and the control stream still answers. Non-trivial: at least one abandoned negotiation.",
	Assumptions: []string{"the peer follows docs/internals.md on the wire; a peer that stalls (rather than closes) in the middle of the id is not generated: the statement lists closing only"},
})
