package props

import (
	"os"
	"os/exec"
	"sort"
	"strconv"
	"strings"
	"time"

	hclog "github.com/hashicorp/go-hclog"
	plugin "github.com/hashicorp/go-plugin"
	"github.com/hashicorp/go-plugin/runner"
	"pgregory.net/rapid"
)

// C02 — version negotiation settles both sides on the highest common version.

type c02Side struct {
	LegacyVersion uint           `json:"legacy_version"`
	LegacyKind    string         `json:"legacy_kind"` // "" = no legacy Plugins field
	Versioned     map[int]string `json:"versioned"`   // version -> kind; nil = field nil
	GRPCServer    bool           `json:"grpc_server"` // plugin side only
}

type c02Case struct {
	Host    c02Side `json:"host"`
	Plug    c02Side `json:"plug"`
	EnvMode string  `json:"env_mode"` // normal | missing | partly_invalid
	// Ambient: the host process itself carries a PLUGIN_PROTOCOL_VERSIONS value (a host that is a
	// plugin of some outer host); the list this client offers must still be the one that counts
	Ambient string `json:"ambient,omitempty"`
	Launch  string `json:"launch"` // runner | cmd
}

func (s c02Side) sets() map[int]string {
	m := map[int]string{}
	for v, k := range s.Versioned {
		m[v] = k
	}
	if s.LegacyKind != "" {
		m[int(s.LegacyVersion)] = s.LegacyKind
	}
	return m
}

func sortedKeys(m map[int]string) []int {
	var ks []int
	for k := range m {
		ks = append(ks, k)
	}
	sort.Ints(ks)
	return ks
}

// wire protocol a plugin set is served over
func c02Proto(kind string, grpcServer bool) string {
	if grpcServer && (kind == "grpc" || kind == "dual") {
		return "grpc"
	}
	return "netrpc"
}

// c02GenSides assigns every version of the pool to host, plugin, both or neither, so that the
// size of the intersection is controlled by the generator rather than left to chance.
func c02GenSides(t *rapid.T, pool []int) (c02Side, c02Side) {
	var hv, pv []int
	for _, v := range pool {
		switch weighted(t, "assign", 30, 15, 15, 40) {
		case 1:
			hv = append(hv, v)
		case 2:
			pv = append(pv, v)
		case 3:
			hv = append(hv, v)
			pv = append(pv, v)
		}
	}
	if len(hv) == 0 {
		hv = append(hv, oneOf(t, "hfill", pool))
	}
	if len(pv) == 0 {
		pv = append(pv, oneOf(t, "pfill", pool))
	}
	mk := func(label string, vs []int) c02Side {
		var s c02Side
		style := weighted(t, label+"style", 15, 55, 30) // legacy only, versioned only, both
		legacyIdx := uniform(t, label+"legacy", len(vs))
		if vs[legacyIdx] < 0 {
			style = 1 // the legacy field is unsigned
		}
		switch style {
		case 0:
			s.LegacyVersion = uint(vs[legacyIdx])
			s.LegacyKind = "x"
		case 1:
			s.Versioned = map[int]string{}
			for _, v := range vs {
				s.Versioned[v] = "x"
			}
		case 2:
			s.LegacyVersion = uint(vs[legacyIdx])
			s.LegacyKind = "x"
			s.Versioned = map[int]string{}
			for i, v := range vs {
				if i != legacyIdx {
					s.Versioned[v] = "x"
				}
			}
		}
		return s
	}
	return mk("host", hv), mk("plug", pv)
}

func abs(x int) int {
	if x < 0 {
		return -x
	}
	return x
}

func c02Gen(t *rapid.T) any {
	c := &c02Case{}
	pool := []int{0, 1, 2, 3, 4, 5, 6}
	if pct(t, "oddversions", 8) {
		pool = []int{0, 1, 2, 7, 100, 2147483647, -1}
	}
	c.Host, c.Plug = c02GenSides(t, pool)
	c.Plug.GRPCServer = rapid.Bool().Draw(t, "grpcserver")
	// kinds: the plugin's kinds are free (but servable); the host's kind for a version the plugin also has must be able to speak that wire protocol
	pk := func(label string) string {
		if !c.Plug.GRPCServer {
			return oneOf(t, label, []string{"netrpc", "dual"})
		}
		return oneOf(t, label, []string{"netrpc", "grpc", "dual"})
	}
	if c.Plug.LegacyKind != "" {
		c.Plug.LegacyKind = pk("plk")
	}
	for _, v := range sortedKeys(c.Plug.Versioned) {
		c.Plug.Versioned[v] = pk("pvk")
	}
	psets := c.Plug.sets()
	hk := func(v int, label string) string {
		if k, ok := psets[v]; ok {
			if c02Proto(k, c.Plug.GRPCServer) == "grpc" {
				return oneOf(t, label, []string{"grpc", "dual"})
			}
			return oneOf(t, label, []string{"netrpc", "dual"})
		}
		return oneOf(t, label, []string{"netrpc", "grpc", "dual"})
	}
	if c.Host.LegacyKind != "" {
		c.Host.LegacyKind = hk(int(c.Host.LegacyVersion), "hlk")
	}
	for _, v := range sortedKeys(c.Host.Versioned) {
		c.Host.Versioned[v] = hk(v, "hvk")
	}
	c.EnvMode = []string{"normal", "missing", "partly_invalid"}[weighted(t, "envmode", 70, 15, 15)]
	c.Launch = "runner"
	if c.EnvMode == "normal" && rapid.Bool().Draw(t, "cmd") {
		c.Launch = "cmd"
	}
	if pct(t, "ambient", 25) {
		c.Ambient = oneOf(t, "ambientlist", []string{"1", "0", "6", "0,1,2,3,4,5,6", "99", "2,x", "3,2"})
	}
	return c
}

func (s c02Side) setSpecs() (uint, *SetSpec, map[int]SetSpec) {
	var legacy *SetSpec
	if s.LegacyKind != "" {
		legacy = &SetSpec{Kind: s.LegacyKind}
	}
	var versioned map[int]SetSpec
	if s.Versioned != nil {
		versioned = map[int]SetSpec{}
		for v, k := range s.Versioned {
			versioned[v] = SetSpec{Kind: k}
		}
	}
	return s.LegacyVersion, legacy, versioned
}

func c02Run(ci any) (out Outcome) {
	c := ci.(*c02Case)
	H, S := c.Host.sets(), c.Plug.sets()
	var common []int
	for v := range H {
		if _, ok := S[v]; ok {
			common = append(common, v)
		}
	}
	sort.Ints(common)
	out.label("env:%s", c.EnvMode)
	out.label("launch:%s", c.Launch)
	out.label("common:%d", min(len(common), 3))

	// what the plugin must announce
	var want int
	expectOK := false
	switch c.EnvMode {
	case "missing":
		want = sortedKeys(S)[0] // the plugin's lowest version
		_, expectOK = H[want]
	default:
		if len(common) > 0 {
			want = common[len(common)-1]
			expectOK = true
		}
	}
	out.NonTrivial = len(common) >= 2 || len(common) == 0 || c.EnvMode == "missing"

	var pspec PluginSpec
	pspec.LegacyVersion, pspec.Legacy, pspec.Versioned = c.Plug.setSpecs()
	pspec.GRPCServer = c.Plug.GRPCServer
	var hcfg HostCfg
	hcfg.LegacyVersion, hcfg.Legacy, hcfg.Versioned = c.Host.setSpecs()
	hcfg.Allowed = []string{"netrpc", "grpc"}
	cc := hcfg.clientConfig()
	var er *execRunner
	raw := &safeBuf{}
	if c.Launch == "cmd" {
		cc.Cmd = pluginCmd(pspec)
	} else {
		cc.RunnerFunc = func(_ hclog.Logger, hc *exec.Cmd, _ string) (runner.Runner, error) {
			pc := pluginCmd(pspec)
			env := append(os.Environ(), hc.Env...)
			var filtered []string
			for _, e := range env {
				if strings.HasPrefix(e, "PLUGIN_PROTOCOL_VERSIONS=") {
					switch c.EnvMode {
					case "missing":
						continue
					case "partly_invalid":
						parts := strings.Split(strings.TrimPrefix(e, "PLUGIN_PROTOCOL_VERSIONS="), ",")
						var mixed []string
						for i, p := range parts {
							mixed = append(mixed, p)
							if i%2 == 0 {
								mixed = append(mixed, []string{"x", "", "1.5", " 2", "9999999999999999999"}[i%5])
							}
						}
						e = "PLUGIN_PROTOCOL_VERSIONS=" + strings.Join(mixed, ",")
					}
				}
				filtered = append(filtered, e)
			}
			pc.Env = filtered
			r, err := newExecRunner(pc)
			if err != nil {
				return nil, err
			}
			r.rawStdout = raw
			er = r
			return r, nil
		}
	}
	if c.Ambient != "" {
		// cases of one process run one after the other, so the process environment can be borrowed
		os.Setenv("PLUGIN_PROTOCOL_VERSIONS", c.Ambient)
		defer os.Unsetenv("PLUGIN_PROTOCOL_VERSIONS")
		out.label("ambient-version-list")
	}
	cl := plugin.NewClient(cc)
	defer killBounded(cl, 20*time.Second)

	var serr error
	if _, ok := within(20*time.Second, func() { _, serr = cl.Start() }); !ok {
		out.Slow = "Start did not return within 20 s"
		return
	}
	pid := 0
	if er != nil {
		pid = er.pid
	} else if cc.Cmd != nil && cc.Cmd.Process != nil {
		pid = cc.Cmd.Process.Pid
	}
	// the version field of the raw handshake line
	if er != nil {
		line := string(raw.Bytes())
		if i := strings.IndexByte(line, '\n'); i >= 0 {
			line = line[:i]
		}
		f := strings.Split(line, "|")
		if len(f) >= 2 {
			if v, err := strconv.Atoi(f[1]); err == nil {
				announcedOK := v == want
				if !expectOK && c.EnvMode != "missing" {
					// disjoint sets: the statement does not say what is announced
					announcedOK = true
				}
				if !announcedOK {
					out.violate("plugin announced version %d, expected %d (host %v, plugin %v, env %s)", v, want, sortedKeys(H), sortedKeys(S), c.EnvMode)
					return
				}
			}
		}
	}
	if !expectOK {
		if serr == nil {
			out.violate("Start succeeded with negotiated version %d although host versions %v and plugin versions %v (env %s) have no acceptable common version", cl.NegotiatedVersion(), sortedKeys(H), sortedKeys(S), c.EnvMode)
			return
		}
		if !strings.Contains(strings.ToLower(serr.Error()), "version") {
			out.label("note:error-does-not-name-a-version")
		}
		if pid != 0 && !waitPidDead(pid, 3*time.Second) {
			out.violate("Start failed for incompatible versions but plugin process %d is still alive after 3 s", pid)
		}
		return
	}
	if serr != nil {
		out.violate("Start failed although host versions %v and plugin versions %v share %v (env %s): %v", sortedKeys(H), sortedKeys(S), common, c.EnvMode, firstLine(serr))
		return
	}
	if got := cl.NegotiatedVersion(); got != want {
		out.violate("negotiated version %d, expected %d = highest common of host %v and plugin %v (env %s)", got, want, sortedKeys(H), sortedKeys(S), c.EnvMode)
		return
	}
	wantProto := c02Proto(S[want], c.Plug.GRPCServer)
	if string(cl.Protocol()) != wantProto {
		out.violate("client reports protocol %q, the plugin set registered under version %d (kind %s, GRPCServer=%v) is served over %q", cl.Protocol(), want, S[want], c.Plug.GRPCServer, wantProto)
		return
	}
	var h Handle
	var derr error
	if _, ok := within(30*time.Second, func() { h, _, derr = dispense(cl, "p") }); !ok {
		out.Slow = "Client/Dispense did not return within 30 s"
		return
	}
	if derr != nil {
		out.violate("dispense failed after a successful negotiation of version %d (%s): %v", want, wantProto, derr)
		return
	}
	r, cerr := h.DoT(Cmd{Op: "tag"}, 20*time.Second)
	if cerr != nil {
		if isTimeoutErr(cerr) {
			out.Slow = "tag call did not return within 20 s"
		} else {
			out.violate("call on the dispensed plugin failed: %v", cerr)
		}
		return
	}
	if r.Tag.Version != want || r.Tag.Kind != S[want] {
		out.violate("plugin side serves the set registered under version %d (kind %s); expected version %d (kind %s)", r.Tag.Version, r.Tag.Kind, want, S[want])
		return
	}
	if h.StubVersion() != want || h.StubKind() != H[want] {
		out.violate("host side uses the set registered under version %d (kind %s); expected version %d (kind %s)", h.StubVersion(), h.StubKind(), want, H[want])
		return
	}
	if h.Proto() != wantProto || r.Tag.Proto != wantProto {
		out.violate("wire protocol host=%s plugin=%s, expected %s", h.Proto(), r.Tag.Proto, wantProto)
	}
	return
}

var propC02 = register(&Prop{
	ID:  "C02",
	Gen: c02Gen,
	New: func() any { return &c02Case{} },
	Run: c02Run,
	Rule: "rapid draws for host and plugin a version configuration (legacy ProtocolVersion+Plugins, VersionedPlugins with 1-5 versions from 0..6 or unusual numbers, or both), a plugin-type kind per set (net/rpc-only, gRPC-only, dual), GRPCServer on/off, " +
		"and how the plugin sees PLUGIN_PROTOCOL_VERSIONS (normal / removed / with invalid elements mixed in, via an env-rewriting runner); launched as a real subprocess; a quarter of the cases run in a host whose own environment already carries a PLUGIN_PROTOCOL_VERSIONS list (nested host). " +
		"Oracle (set model): announced version = Client.NegotiatedVersion = max(H∩S); the dispensed implementation's tag says it was registered under that version and kind on the plugin, the host stub is the host's set for that version, " +
		"wire protocol = that set's; disjoint => Start fails and the pid is gone; no list => plugin announces min(S). Non-trivial: >=2 common versions, or disjoint, or no list.",
	Assumptions: []string{"plugin sets are non-empty and homogeneous; gRPC-only sets are only served with GRPCServer set; the host's set for a common version can speak the plugin's wire protocol (author preconditions)",
		"a legacy version that coincides with a VersionedPlugins key is not generated (which set wins is not stated)"},
})
