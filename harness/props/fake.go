package props

// Fake plugins: scripted byte producers that do not use plugin.Serve. Either a
// real process (the test binary run as "verif-fake") or an in-process runner
// over io.Pipe.

import (
	"context"
	"crypto/tls"
	"encoding/base64"
	"encoding/json"
	"encoding/pem"
	"fmt"
	"io"
	"net"
	"os"
	"strings"
	"sync"
	"sync/atomic"
	"time"

	"github.com/hashicorp/go-plugin/runner"
)

type FakeStep struct {
	Op   string `json:"op"` // out | err | sleep | exit | close_out | close_err | forever | marker | listen
	Data []byte `json:"d,omitempty"`
	Ms   int    `json:"ms,omitempty"`
	Code int    `json:"code,omitempty"`
	Path string `json:"path,omitempty"`
}

type FakeSpec struct {
	Steps []FakeStep `json:"steps"`
}

// fakeMain runs a FakeSpec in a real process.
func fakeMain(specJSON string) {
	var spec FakeSpec
	if err := json.Unmarshal([]byte(specJSON), &spec); err != nil {
		fmt.Fprintf(os.Stderr, "bad fake spec: %v\n", err)
		os.Exit(3)
	}
	ppid := os.Getppid()
	go func() {
		deadline := time.Now().Add(120 * time.Second)
		for {
			time.Sleep(100 * time.Millisecond)
			if os.Getppid() != ppid || time.Now().After(deadline) {
				os.Exit(7)
			}
		}
	}()
	var ln net.Listener
	announced := ""
	subst := func(b []byte) []byte {
		if ln == nil {
			return b
		}
		s := strings.ReplaceAll(string(b), "{NET}", ln.Addr().Network())
		s = strings.ReplaceAll(s, "{ADDR}", ln.Addr().String())
		s = strings.ReplaceAll(s, "{CERT}", announced)
		return []byte(s)
	}
	for _, st := range spec.Steps {
		switch st.Op {
		case "out":
			os.Stdout.Write(subst(st.Data))
		case "err":
			os.Stderr.Write(subst(st.Data))
		case "sleep":
			time.Sleep(time.Duration(st.Ms) * time.Millisecond)
		case "exit":
			os.Exit(st.Code)
		case "close_out":
			os.Stdout.Close()
		case "close_err":
			os.Stderr.Close()
		case "forever":
			for {
				time.Sleep(time.Hour)
			}
		case "marker":
			appendLine(st.Path, fmt.Sprintf("pid %d", os.Getpid()))
		case "listen_tls", "listen_plain_impostor":
			// impostor: announce one certificate on the handshake line, serve another (or plaintext)
			certA, _, _ := genCertPEM("localhost")
			blk, _ := pem.Decode(certA)
			announced = base64.RawStdEncoding.EncodeToString(blk.Bytes)
			l, err := net.Listen("tcp", "127.0.0.1:0")
			if err != nil {
				os.Exit(4)
			}
			ln = l
			var tcfg *tls.Config
			marker := st.Path
			if st.Op == "listen_tls" {
				certB, keyB, _ := genCertPEM("localhost")
				pair, _ := tls.X509KeyPair(certB, keyB)
				tcfg = &tls.Config{Certificates: []tls.Certificate{pair}}
			}
			go func() {
				for {
					c, err := l.Accept()
					if err != nil {
						return
					}
					go func(c net.Conn) {
						defer c.Close()
						if tcfg != nil {
							tc := tls.Server(c, tcfg)
							if tc.Handshake() != nil {
								return
							}
							if marker != "" {
								appendLine(marker, "tls handshake completed with a certificate that was not announced")
							}
							c = tc
						}
						// answer like something is there: echo a little, then drain
						c.SetDeadline(time.Now().Add(5 * time.Second))
						io.Copy(io.Discard, c)
					}(c)
				}
			}()
		case "listen":
			var err error
			if st.Path != "" {
				ln, err = net.Listen("unix", st.Path)
			} else {
				ln, err = net.Listen("tcp", "127.0.0.1:0")
			}
			if err != nil {
				fmt.Fprintf(os.Stderr, "listen: %v\n", err)
				os.Exit(4)
			}
			go func(l net.Listener) {
				for {
					c, err := l.Accept()
					if err != nil {
						return
					}
					go func() { io.Copy(io.Discard, c); c.Close() }()
				}
			}(ln)
		}
	}
	os.Exit(0)
}

// ---------------------------------------------------------------------------
// scriptRunner: in-process runner.Runner driven by a FakeSpec.

type scriptRunner struct {
	spec FakeSpec

	outR, errR *io.PipeReader
	outW, errW *io.PipeWriter

	starts int32
	kills  int32
	exited chan struct{}
	once   sync.Once

	// scriptDone is closed when every step has been executed (all bytes consumed)
	scriptDone chan struct{}
	started    time.Time

	startErr error
	onStart  func()
}

func newScriptRunner(spec FakeSpec) *scriptRunner {
	r := &scriptRunner{spec: spec, exited: make(chan struct{}), scriptDone: make(chan struct{})}
	r.outR, r.outW = io.Pipe()
	r.errR, r.errW = io.Pipe()
	return r
}

func (r *scriptRunner) exit() {
	r.once.Do(func() {
		r.outW.Close()
		r.errW.Close()
		close(r.exited)
	})
}

func (r *scriptRunner) Start(context.Context) error {
	atomic.AddInt32(&r.starts, 1)
	if r.onStart != nil {
		r.onStart()
	}
	if r.startErr != nil {
		return r.startErr
	}
	r.started = time.Now()
	go func() {
		defer close(r.scriptDone)
		for _, st := range r.spec.Steps {
			select {
			case <-r.exited:
				return
			default:
			}
			switch st.Op {
			case "out":
				if _, err := r.outW.Write(st.Data); err != nil {
					return
				}
			case "err":
				if _, err := r.errW.Write(st.Data); err != nil {
					return
				}
			case "sleep":
				select {
				case <-time.After(time.Duration(st.Ms) * time.Millisecond):
				case <-r.exited:
					return
				}
			case "exit":
				r.exit()
				return
			case "close_out":
				r.outW.Close()
			case "close_err":
				r.errW.Close()
			case "forever":
				<-r.exited
				return
			}
		}
	}()
	return nil
}

func (r *scriptRunner) Wait(context.Context) error {
	<-r.exited
	return nil
}
func (r *scriptRunner) Kill(context.Context) error {
	atomic.AddInt32(&r.kills, 1)
	// a killed process has its pipes closed: unblock the script
	r.outW.CloseWithError(io.ErrClosedPipe)
	r.errW.CloseWithError(io.ErrClosedPipe)
	r.exit()
	return nil
}
func (r *scriptRunner) Diagnose(context.Context) string { return "" }
func (r *scriptRunner) Stdout() io.ReadCloser           { return r.outR }
func (r *scriptRunner) Stderr() io.ReadCloser           { return r.errR }
func (r *scriptRunner) Name() string                    { return "scripted" }
func (r *scriptRunner) ID() string                      { return "scripted-1" }
func (r *scriptRunner) PluginToHost(n, a string) (string, string, error) {
	return n, a, nil
}
func (r *scriptRunner) HostToPlugin(n, a string) (string, string, error) {
	return n, a, nil
}

var _ runner.Runner = (*scriptRunner)(nil)
