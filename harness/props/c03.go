package props

import (
	"context"
	"fmt"
	hclog "github.com/hashicorp/go-hclog"
	"github.com/hashicorp/go-plugin/runner"
	"io"
	"net"
	"os"
	"os/exec"
	"path/filepath"
	"strings"
	"sync"
	"sync/atomic"
	"syscall"
	"time"

	plugin "github.com/hashicorp/go-plugin"
	"google.golang.org/grpc"
	"pgregory.net/rapid"
)

// C03 — plugin failure at any point becomes a host error, never a crash or hang.

type c03Case struct {
	Proto string `json:"proto"` // netrpc | grpc | grpcmux
	// Kind of crash point
	Kind string `json:"kind"`
	// Arg: prefix length (line-prefix), offset in ms (timed-kill), stream index (in-stream)
	Arg int `json:"arg"`
	// Op: the host operation in flight for timed-kill: start | client | dispense | ping | call | stream | broker_dial | broker_accept | write
	Op string `json:"op"`
}

var c03Kinds = []string{
	"hook:serve.begin", "hook:serve.listener", "hook:serve.handshake.printed", "hook:serve.serving",
	"line-prefix", "idle-kill", "in-call:exit", "in-call:kill9", "in-stream",
	"broker:plugin-accept", "broker:plugin-accept-sent", "broker:plugin-dial", "broker:after-nextid", "broker:knock",
	"stdio-chunk", "timed-kill", "reattach-kill", "rejected-line-then-more", "burst:instant-exit",
}

var c03Ops = []string{"start", "client", "dispense", "ping", "call", "stream", "broker_dial", "broker_accept", "write"}

func c03Valid(c *c03Case) bool {
	switch c.Kind {
	case "burst:instant-exit":
		return c.Proto == "netrpc" // the protocol is never reached
	case "in-stream":
		return c.Proto != "netrpc"
	case "stdio-chunk":
		return c.Proto != "netrpc"
	case "broker:plugin-accept-sent":
		return c.Proto == "grpc"
	case "broker:knock":
		return c.Proto == "grpcmux"
	case "reattach-kill":
		return c.Proto != "grpcmux" // multiplexing does not support reattach
	case "timed-kill":
		if c.Op == "stream" && c.Proto == "netrpc" {
			return false
		}
	}
	return true
}

func c03Gen(t *rapid.T) any {
	for {
		c := &c03Case{Proto: oneOf(t, "proto", []string{"netrpc", "grpc", "grpcmux"})}
		c.Kind = oneOf(t, "kind", c03Kinds)
		if pct(t, "timed", 25) {
			c.Kind = "timed-kill"
		} else if pct(t, "reattach", 8) {
			c.Kind = "reattach-kill"
		}
		switch c.Kind {
		case "line-prefix":
			c.Arg = oneOf(t, "prefix", []int{0, 1, 2, 4, 9, 20, 1000})
		case "timed-kill":
			c.Arg = uniform(t, "offset", 51)
			c.Op = oneOf(t, "op", c03Ops)
		case "in-stream":
			c.Arg = uniform(t, "at", 5)
		case "rejected-line-then-more":
			c.Arg = oneOf(t, "morelines", []int{1, 2, 3, 50})
		}
		if c03Valid(c) {
			return c
		}
		// invalid combinations are re-drawn from the same stream (a handful of cells), not filtered
	}
}

func c03Enum() (int, func(i int) any) {
	var cells []*c03Case
	for _, proto := range []string{"netrpc", "grpc", "grpcmux"} {
		for _, k := range c03Kinds {
			switch k {
			case "line-prefix":
				for _, n := range []int{0, 1, 2, 4, 9, 20, 1000} {
					cells = append(cells, &c03Case{Proto: proto, Kind: k, Arg: n})
				}
			case "timed-kill":
				for _, op := range c03Ops {
					for _, off := range []int{0, 1, 3, 10, 30} {
						cells = append(cells, &c03Case{Proto: proto, Kind: k, Op: op, Arg: off})
					}
				}
			case "in-stream":
				for _, at := range []int{0, 2} {
					cells = append(cells, &c03Case{Proto: proto, Kind: k, Arg: at})
				}
			case "rejected-line-then-more":
				for _, n := range []int{1, 2, 50} {
					cells = append(cells, &c03Case{Proto: proto, Kind: k, Arg: n})
				}
			default:
				cells = append(cells, &c03Case{Proto: proto, Kind: k})
			}
		}
	}
	var valid []*c03Case
	for _, c := range cells {
		if c03Valid(c) {
			valid = append(valid, c)
		}
	}
	reps := 3
	return len(valid) * reps, func(i int) any { c := *valid[i%len(valid)]; return &c }
}

var c03Seq int64

// bounded runs f; returns false and a Slow message when it does not return in time.
func (o *Outcome) bounded(what string, d time.Duration, f func()) bool {
	if _, ok := within(d, f); !ok {
		if o.Slow == "" {
			o.Slow = fmt.Sprintf("%s did not return within %v", what, d)
		}
		return false
	}
	return true
}

// instantExitRunner: a plugin that is gone the moment it was started: stderr is at EOF from the
// beginning, stdout ends when the runner is killed.
type instantExitRunner struct {
	outR *io.PipeReader
	outW *io.PipeWriter
	done chan struct{}
	once sync.Once
}

func newInstantExitRunner() *instantExitRunner {
	r := &instantExitRunner{done: make(chan struct{})}
	r.outR, r.outW = io.Pipe()
	return r
}
func (r *instantExitRunner) Start(context.Context) error { return nil }
func (r *instantExitRunner) Wait(context.Context) error  { <-r.done; return nil }
func (r *instantExitRunner) Kill(context.Context) error {
	r.once.Do(func() { r.outW.Close(); close(r.done) })
	return nil
}
func (r *instantExitRunner) Stdout() io.ReadCloser           { return r.outR }
func (r *instantExitRunner) Stderr() io.ReadCloser           { return io.NopCloser(strings.NewReader("")) }
func (r *instantExitRunner) Name() string                    { return "instant-exit" }
func (r *instantExitRunner) ID() string                      { return "1" }
func (r *instantExitRunner) Diagnose(context.Context) string { return "" }
func (r *instantExitRunner) PluginToHost(n, a string) (string, string, error) {
	return n, a, nil
}
func (r *instantExitRunner) HostToPlugin(n, a string) (string, string, error) {
	return n, a, nil
}

// c03Burst: many clients whose plugin is gone at once, started from several goroutines. Every Start
// must return an error; the host (this isolated process) must survive - a panic in one of the
// goroutines Start leaves behind ends the process and is attributed to the case by the parent.
func c03Burst(c *c03Case) (out Outcome) {
	out.NonTrivial = true
	workers, per := 8, 2400
	var wg sync.WaitGroup
	var succeeded int64
	_, ok := within(120*time.Second, func() {
		for g := 0; g < workers; g++ {
			wg.Add(1)
			go func() {
				defer wg.Done()
				for i := 0; i < per; i++ {
					r := newInstantExitRunner()
					cl := plugin.NewClient(&plugin.ClientConfig{
						HandshakeConfig: plugin.HandshakeConfig{ProtocolVersion: 1, MagicCookieKey: defaultCookieKey, MagicCookieValue: defaultCookieValue},
						Plugins:         plugin.PluginSet{},
						RunnerFunc:      func(hclog.Logger, *exec.Cmd, string) (runner.Runner, error) { return r, nil },
						StartTimeout:    time.Millisecond,
						Logger:          nullLogger(),
					})
					go func() { time.Sleep(200 * time.Microsecond); r.Kill(nil) }()
					if _, err := cl.Start(); err == nil {
						atomic.AddInt64(&succeeded, 1)
					}
					cl.Kill()
				}
			}()
		}
		wg.Wait()
	})
	if !ok {
		out.Slow = "a burst of starts of plugins that are gone at once did not finish within 120 s"
		return
	}
	if succeeded > 0 {
		out.violate("%d of %d starts of a plugin that never printed anything reported success", succeeded, workers*per)
	}
	return
}

func c03Run(ci any) (out Outcome) {
	c := ci.(*c03Case)
	out.label("kind:%s", c.Kind)
	out.label("proto:%s", c.Proto)
	if c.Kind == "burst:instant-exit" {
		return c03Burst(c)
	}
	if c.Kind == "timed-kill" {
		out.label("op:%s", c.Op)
	}
	caseDir := filepath.Join(scratchDir(), fmt.Sprintf("c03-%d-%d", os.Getpid(), atomic.AddInt64(&c03Seq, 1)))
	os.MkdirAll(caseDir, 0o755)
	defer os.RemoveAll(caseDir)
	desc := fmt.Sprintf("%+v", *c)
	set := SetSpec{Kind: "dual"}
	ps := PluginSpec{LegacyVersion: 1, Legacy: &set, GRPCServer: c.Proto != "netrpc"}
	cc := HostCfg{LegacyVersion: 1, Legacy: &set, Allowed: []string{"netrpc", "grpc"}, Mux: c.Proto == "grpcmux", StartTimeoutMs: 4000}.clientConfig()
	hookMark := filepath.Join(caseDir, "hook-mark")
	hooks := ""
	addHook := func(point string) { hooks += point + "=mark:" + hookMark + "+kill;" }
	switch c.Kind {
	case "hook:serve.begin", "hook:serve.listener", "hook:serve.handshake.printed", "hook:serve.serving":
		addHook(strings.TrimPrefix(c.Kind, "hook:"))
	case "broker:plugin-accept":
		if c.Proto == "grpcmux" {
			addHook("grpcbroker.accept.mux.beforeListener")
		} else if c.Proto == "grpc" {
			addHook("grpcbroker.accept.listening")
		}
	case "broker:plugin-accept-sent":
		addHook("grpcbroker.accept.sent")
	case "broker:plugin-dial":
		if c.Proto == "netrpc" {
			addHook("muxbroker.dial.opened")
		} else {
			addHook("grpcbroker.dial.gotinfo")
		}
	case "broker:knock":
		addHook("grpcbroker.knock.received")
	case "stdio-chunk":
		addHook("grpcstdio.chunk")
	}
	if c.Kind == "rejected-line-then-more" {
		// a plugin (or a binary that is no plugin at all) whose first line is rejected and which
		// keeps printing before it dies: usage text, a crash trace ...
		more := []byte(strings.Repeat("more output after the rejected first line\n", c.Arg))
		cc.Cmd = fakeCmd(FakeSpec{Steps: []FakeStep{{Op: "out", Data: append([]byte("1|999|tcp|127.0.0.1:1|netrpc|\n"), more...)}, {Op: "sleep", Ms: 20}, {Op: "exit", Code: 2}}})
	} else if c.Kind == "line-prefix" {
		// a fake plugin that dies in the middle of (or right before) its handshake line
		full := "1|1|unix|" + filepath.Join(caseDir, "nosuch.sock") + "|" + map[bool]string{true: "netrpc", false: "grpc"}[c.Proto == "netrpc"] + "|"
		n := min(c.Arg, len(full))
		cc.Cmd = fakeCmd(FakeSpec{Steps: []FakeStep{{Op: "out", Data: []byte(full[:n])}, {Op: "exit", Code: 2}}})
	} else {
		cc.Cmd = pluginCmd(ps)
		if hooks != "" {
			cc.Cmd.Env = []string{"VERIF_HOOKS=" + hooks}
		}
	}
	cl := plugin.NewClient(cc)
	defer func() {
		if p := cc.Cmd.Process; p != nil {
			p.Kill()
		}
		killBounded(cl, 20*time.Second)
	}()
	pidOf := func() int {
		if cc.Cmd.Process != nil {
			return cc.Cmd.Process.Pid
		}
		return 0
	}
	killAfter := func(d time.Duration) {
		go func() {
			time.Sleep(d)
			if pid := pidOf(); pid != 0 {
				syscall.Kill(pid, syscall.SIGKILL)
			}
		}()
	}

	if c.Kind == "reattach-kill" {
		c03ReattachKill(&out, c, cl, cc.Cmd, desc)
		return
	}
	var h Handle
	var cp plugin.ClientProtocol
	var gctxDone <-chan struct{}
	needPlugin := func(what string, err error) bool {
		if err == nil {
			out.violate("%s succeeded although the plugin had died; crash point %s", what, desc)
			return false
		}
		return true
	}
	const opBound = 15 * time.Second

	// ---- phase 1: bring the plugin up as far as the crash point allows
	earlyCrash := strings.HasPrefix(c.Kind, "hook:serve.") || c.Kind == "line-prefix" || c.Kind == "rejected-line-then-more" || (c.Kind == "timed-kill" && (c.Op == "start" || c.Op == "client" || c.Op == "dispense"))
	if c.Kind == "timed-kill" && c.Op == "start" {
		// the kill is timed relative to the launch
		go func() {
			waitFor(2*time.Second, func() bool { return pidOf() != 0 })
			time.Sleep(time.Duration(c.Arg) * time.Millisecond)
			syscall.Kill(pidOf(), syscall.SIGKILL)
		}()
	}
	var serr error
	if !out.bounded("Start", 4*time.Second+5*time.Second, func() { _, serr = cl.Start() }) {
		return
	}
	if earlyCrash && c.Kind != "timed-kill" || (c.Kind == "timed-kill" && c.Op == "start") {
		// crash before / during / right after the handshake
		if serr == nil {
			out.label("start:ok")
		} else {
			out.label("start:error")
		}
		// a prefix with fewer than four fields cannot be a handshake; a longer truncated line is
		// parseable and may be accepted (later calls must fail either way)
		if c.Kind == "hook:serve.begin" || c.Kind == "hook:serve.listener" || (c.Kind == "line-prefix" && c.Arg <= 8) || c.Kind == "rejected-line-then-more" {
			if serr == nil {
				out.violate("Start succeeded although the plugin died before completing its handshake line; %s", desc)
				return
			}
		}
		waitPidDead(pidOf(), 3*time.Second)
		out.NonTrivial = true
		// later calls must fail, in bounded time
		var cerr, perr error
		if !out.bounded("Client after the plugin died", opBound, func() { cp, cerr = cl.Client() }) {
			return
		}
		if cerr == nil && cp != nil {
			if !out.bounded("Ping after the plugin died", opBound, func() { perr = cp.Ping() }) {
				return
			}
			if !needPlugin("Ping", perr) {
				return
			}
			var derr error
			if !out.bounded("Dispense+call after the plugin died", opBound, func() {
				raw, e := cp.Dispense("p")
				if e != nil {
					derr = e
					return
				}
				_, derr = raw.(Handle).DoT(Cmd{Op: "tag"}, 10*time.Second)
			}) {
				return
			}
			if !needPlugin("Dispense+call", derr) {
				return
			}
		}
		c03After(&out, cl, nil, desc)
		return
	}
	if serr != nil {
		out.violate("could not start the plugin: %v; %s", firstLine(serr), desc)
		return
	}
	if c.Kind == "timed-kill" && (c.Op == "client" || c.Op == "dispense") {
		killAfter(time.Duration(c.Arg) * time.Millisecond)
		var err error
		if !out.bounded("Client+Dispense racing a SIGKILL", opBound, func() {
			var hh Handle
			hh, cp, err = dispense(cl, "p")
			if err == nil {
				_, err = hh.DoT(Cmd{Op: "sleep", N: 200}, 10*time.Second)
			}
		}) {
			return
		}
		waitPidDead(pidOf(), 3*time.Second)
		out.NonTrivial = true
		if !needPlugin("a call that outlives the plugin", err) {
			return
		}
		c03After(&out, cl, nil, desc)
		return
	}
	var derr error
	if !out.bounded("Client+Dispense", opBound, func() { h, cp, derr = dispense(cl, "p") }) {
		return
	}
	if derr != nil {
		out.violate("could not dispense: %v; %s", firstLine(derr), desc)
		return
	}
	if gh, ok := h.(*grpcHandle); ok {
		gctxDone = gh.ctx.Done()
	}
	if _, err := h.DoT(Cmd{Op: "tag"}, 10*time.Second); err != nil {
		out.violate("first call failed: %v; %s", firstLine(err), desc)
		return
	}

	// ---- phase 2: the crash, with a host operation in flight
	var inflight error
	runOp := func(op string) error {
		switch op {
		case "ping":
			// keep pinging until the plugin is gone (it is killed a few ms from now)
			var last error
			for end := time.Now().Add(5 * time.Second); last == nil && time.Now().Before(end); {
				last = cp.Ping()
			}
			return last
		case "call":
			_, err := h.DoT(Cmd{Op: "sleep", N: 300}, 12*time.Second)
			return err
		case "stream":
			gh := h.(*grpcHandle)
			_, err := gh.StreamN(200, "", 0, 12*time.Second)
			return err
		case "write":
			_, err := h.DoT(Cmd{Op: "write", Writes: []Write{{Stream: "out", Data: make([]byte, 100000)}, {Stream: "err", Data: make([]byte, 100000)}}}, 12*time.Second)
			if err == nil {
				_, err = h.DoT(Cmd{Op: "sleep", N: 200}, 12*time.Second)
			}
			return err
		case "broker_dial": // plugin accepts (later), host dials
			id := freshBrokerID()
			go h.DoT(Cmd{Op: "broker_accept", ID: id, N: 20}, 12*time.Second)
			_, err := c14HostDial(h, id)
			if err == nil {
				_, err = h.DoT(Cmd{Op: "sleep", N: 200}, 12*time.Second)
			}
			return err
		case "broker_accept": // host accepts, plugin dials (later)
			id := freshBrokerID()
			c14HostAccept(h, id)
			_, err := h.DoT(Cmd{Op: "broker_dial", ID: id, N: 20}, 12*time.Second)
			if err == nil {
				_, err = h.DoT(Cmd{Op: "sleep", N: 200}, 12*time.Second)
			}
			return err
		}
		return fmt.Errorf("unknown op %s", op)
	}
	what := ""
	switch c.Kind {
	case "idle-kill":
		syscall.Kill(pidOf(), syscall.SIGKILL)
		waitPidDead(pidOf(), 3*time.Second)
	case "in-call:exit", "in-call:kill9":
		what = "the call during which the plugin died"
		if !out.bounded(what, opBound, func() { _, inflight = h.DoT(Cmd{Op: strings.TrimPrefix(c.Kind, "in-call:"), N: 3}, 12*time.Second) }) {
			return
		}
	case "in-stream":
		what = "the stream during which the plugin died"
		if !out.bounded(what, opBound, func() { _, inflight = h.(*grpcHandle).StreamN(10, "kill9", c.Arg, 12*time.Second) }) {
			return
		}
	case "broker:plugin-accept", "broker:plugin-accept-sent", "broker:knock":
		// the plugin dies while accepting; the host is dialling that id
		what = "host Dial of an id whose acceptor died"
		if c.Proto == "netrpc" {
			// net/rpc: the plugin's Accept has no named point; it dies right after reserving the id
			what = "host Dial of an id the plugin reserved before dying"
		}
		id := freshBrokerID()
		if !out.bounded(what, opBound+5*time.Second, func() {
			if c.Proto == "netrpc" {
				go h.DoT(Cmd{Op: "exit", N: 3}, 5*time.Second)
			} else {
				go h.DoT(Cmd{Op: "broker_accept", ID: id}, 12*time.Second)
			}
			_, inflight = c14HostDial(h, id)
		}) {
			return
		}
	case "broker:plugin-dial":
		what = "host Accept of an id whose dialer died"
		id := freshBrokerID()
		if !out.bounded(what, opBound+5*time.Second, func() {
			switch hh := h.(type) {
			case *rpcHandle:
				go h.DoT(Cmd{Op: "broker_dial", ID: id}, 12*time.Second)
				conn, err := hh.mux.Accept(id)
				if err == nil {
					// the dialer died after opening the stream: nothing will ever arrive on it
					conn.SetDeadline(time.Now().Add(8 * time.Second))
					buf := make([]byte, 1)
					_, err = conn.Read(buf)
					conn.Close()
				}
				inflight = err
			case *grpcHandle:
				var once sync.Once
				served := make(chan struct{})
				go hh.broker.AcceptAndServe(id, func(opts []grpc.ServerOption) *grpc.Server {
					s := grpc.NewServer(opts...)
					registerHarness(s, "verif.Brokered", &impl{tag: Tag{Broker: id, Side: "host"}})
					once.Do(func() { close(served) })
					return s
				})
				_, inflight = h.DoT(Cmd{Op: "broker_dial", ID: id}, 12*time.Second)
			}
		}) {
			return
		}
	case "broker:after-nextid":
		// the plugin hands out an id and dies before listening / dialling
		what = "host Dial of an id issued by a plugin that then died"
		var id uint32
		if !out.bounded(what, opBound+5*time.Second, func() {
			r, err := h.DoT(Cmd{Op: "nextid"}, 10*time.Second)
			if err != nil {
				inflight = err
				return
			}
			id = uint32(r.N)
			h.DoT(Cmd{Op: "exit", N: 4}, 5*time.Second)
			_, inflight = c14HostDial(h, id)
		}) {
			return
		}
	case "stdio-chunk":
		what = "the call whose stdio output killed the plugin"
		if !out.bounded(what, opBound, func() {
			_, inflight = h.DoT(Cmd{Op: "write", Writes: []Write{{Stream: "out", Data: []byte("some output\n")}}}, 12*time.Second)
			if inflight == nil {
				_, inflight = h.DoT(Cmd{Op: "sleep", N: 300}, 12*time.Second)
			}
		}) {
			return
		}
	case "timed-kill":
		what = fmt.Sprintf("%s racing a SIGKILL after %d ms", c.Op, c.Arg)
		killAfter(time.Duration(c.Arg) * time.Millisecond)
		if !out.bounded(what, opBound+5*time.Second, func() { inflight = runOp(c.Op) }) {
			return
		}
	}
	if !waitPidDead(pidOf(), 5*time.Second) {
		// the crash point was not reached (e.g. the hook's code path is not taken in this protocol)
		out.label("plugin-survived")
		return
	}
	out.NonTrivial = true
	if what != "" && !needPlugin(what, inflight) {
		return
	}
	c03After(&out, cl, h, desc)
	if out.Violation == "" && out.Slow == "" && gctxDone != nil {
		select {
		case <-gctxDone:
		case <-time.After(5 * time.Second):
			out.violate("the context handed to GRPCPlugin.GRPCClient is not cancelled 5 s after the plugin died; %s", desc)
		}
	}
	return
}

// c03ReattachKill: the plugin dies while a second, reattached client has not connected yet. That
// client notices the death only through its once-per-second pid poll, so for up to a second its
// Client / Dispense / broker calls run against a dead plugin that it still believes alive.
func c03ReattachKill(out *Outcome, c *c03Case, first *plugin.Client, cmd *exec.Cmd, desc string) {
	const opBound = 20 * time.Second
	var serr error
	if !out.bounded("Start", 10*time.Second, func() { _, serr = first.Start() }) {
		return
	}
	if serr != nil {
		out.violate("could not start the plugin: %v; %s", firstLine(serr), desc)
		return
	}
	rc := first.ReattachConfig()
	if rc == nil {
		out.violate("ReattachConfig() is nil after Start; %s", desc)
		return
	}
	set := SetSpec{Kind: "dual"}
	cc2 := HostCfg{LegacyVersion: 1, Legacy: &set, Allowed: []string{"netrpc", "grpc"}}.clientConfig()
	cc2.Reattach = rc
	second := plugin.NewClient(cc2)
	defer killBounded(second, 20*time.Second)
	if _, err := second.Start(); err != nil {
		out.violate("reattach to a live plugin failed: %v; %s", firstLine(err), desc)
		return
	}
	syscall.Kill(cmd.Process.Pid, syscall.SIGKILL)
	waitPidDead(cmd.Process.Pid, 3*time.Second)
	out.NonTrivial = true
	// the reattached client has not noticed yet
	var cp plugin.ClientProtocol
	var cerr error
	if !out.bounded("Client() of the reattached client right after the plugin died", opBound, func() { cp, cerr = second.Client() }) {
		return
	}
	if cerr == nil && cp != nil {
		var raw interface{}
		var derr error
		if !out.bounded("Dispense right after the plugin died", opBound, func() { raw, derr = cp.Dispense("p") }) {
			return
		}
		if derr == nil {
			h := raw.(Handle)
			var err error
			if !out.bounded("a call right after the plugin died", opBound, func() { _, err = h.DoT(Cmd{Op: "tag"}, 10*time.Second) }) {
				return
			}
			if err == nil {
				out.violate("a call on a plugin dispensed after its process died succeeded; %s", desc)
				return
			}
			// broker operations on the host side return in bounded time too
			switch hh := h.(type) {
			case *grpcHandle:
				if !out.bounded("broker Accept on the host after the plugin died", opBound, func() {
					if ln, err := hh.broker.Accept(freshBrokerID()); err == nil {
						ln.Close()
					}
				}) {
					return
				}
				var derr2 error
				if !out.bounded("broker Dial on the host after the plugin died", opBound, func() { _, derr2 = c14HostDial(h, freshBrokerID()) }) {
					return
				}
				if derr2 == nil {
					out.violate("a brokered Dial succeeded after the plugin died; %s", desc)
					return
				}
			case *rpcHandle:
				var aerr error
				if !out.bounded("broker Accept on the host after the plugin died", opBound, func() {
					var conn net.Conn
					if conn, aerr = hh.mux.Accept(freshBrokerID()); aerr == nil {
						conn.Close()
					}
				}) {
					return
				}
				if aerr == nil {
					out.violate("a brokered Accept succeeded after the plugin died; %s", desc)
					return
				}
			}
		}
		var perr error
		if !out.bounded("Ping right after the plugin died", opBound, func() { perr = cp.Ping() }) {
			return
		}
		if perr == nil {
			out.violate("Ping succeeded after the plugin died; %s", desc)
			return
		}
	}
	if !waitFor(6*time.Second, second.Exited) {
		out.violate("the reattached client's Exited() is still false 6 s after the plugin died; %s", desc)
		return
	}
	if el, ok := killBounded(second, 10*time.Second); !ok {
		out.Slow = fmt.Sprintf("Kill of the reattached client did not return within %v", el)
	}
}

// c03After: once the plugin is dead every later call fails in bounded time and the client reports the exit.
func c03After(out *Outcome, cl *plugin.Client, h Handle, desc string) {
	if out.Violation != "" || out.Slow != "" {
		return
	}
	const opBound = 15 * time.Second
	if h != nil {
		var err error
		if !out.bounded("a call after the plugin died", opBound, func() { _, err = h.DoT(Cmd{Op: "tag"}, 10*time.Second) }) {
			return
		}
		if err == nil {
			out.violate("a call on the dispensed plugin succeeded after the plugin died; %s", desc)
			return
		}
		if isTimeoutErr(err) {
			out.Slow = "a call after the plugin died only returned through the harness's own 10 s deadline"
			return
		}
		var derr error
		if !out.bounded("a brokered Dial after the plugin died", opBound+5*time.Second, func() { _, derr = c14HostDial(h, freshBrokerID()) }) {
			return
		}
		if derr == nil {
			out.violate("a brokered Dial succeeded after the plugin died; %s", desc)
			return
		}
	}
	var cp plugin.ClientProtocol
	var cerr error
	if !out.bounded("Client() after the plugin died", opBound, func() { cp, cerr = cl.Client() }) {
		return
	}
	if cerr == nil && cp != nil {
		var perr error
		if !out.bounded("Ping after the plugin died", opBound, func() { perr = cp.Ping() }) {
			return
		}
		if perr == nil {
			out.violate("Ping succeeded after the plugin died; %s", desc)
			return
		}
	}
	if !waitFor(5*time.Second, cl.Exited) {
		out.violate("Exited() is still false 5 s after the plugin died; %s", desc)
		return
	}
	if el, ok := killBounded(cl, 10*time.Second); !ok {
		out.Slow = fmt.Sprintf("Kill after the plugin died did not return within %v", el)
	}
}

var propC03 = register(&Prop{
	ID: "C03", Gen: c03Gen, New: func() any { return &c03Case{} }, Run: c03Run, Enum: c03Enum,
	Iso: true, IsoTimeout: 150 * time.Second,
	Rule: "crash points x protocol (net/rpc, gRPC, gRPC+mux) x host operation in flight: named points inside Serve and the brokers (kill at serve.begin / serve.listener / serve.handshake.printed / serve.serving, at the broker's accept / accept-sent / dial / knock points, at the first stdio chunk), a fake plugin dying after every prefix class of its handshake line, death while idle, inside a unary call (exit and SIGKILL), inside a stream, after a broker id was issued, " +
		"and a timed SIGKILL 0-50 ms into start / connect / dispense / ping / call / stream / brokered dial / brokered accept / stdio write. Every case runs in an isolated child host. " +
		"Oracle: every in-flight and later host call returns within 15-20 s with an error when it needed the plugin, the host process survives, Exited() becomes true and the context given to GRPCClient is cancelled within 5 s, Kill returns. The thorough tier enumerates the named product completely (x3). Non-trivial: the plugin really died.",
	Assumptions: []string{"crash points are the named ones plus random instants, not every instruction boundary", "Start on a parseable but truncated line from a dying plugin may succeed or fail; later calls must fail"},
})
