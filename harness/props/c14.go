package props

import (
	"crypto/sha256"
	"errors"
	"fmt"
	"io"
	"net/rpc"
	"os"
	"os/exec"
	"path/filepath"
	"strings"
	"sync"
	"sync/atomic"
	"time"

	hclog "github.com/hashicorp/go-hclog"
	plugin "github.com/hashicorp/go-plugin"
	"github.com/hashicorp/go-plugin/runner"
	"google.golang.org/grpc"
	"pgregory.net/rapid"
)

// C14 — host and plugin configurations interoperate exactly when compatible.

type c14Case struct {
	// host
	HostKind string `json:"host_kind"` // plugin types of the host's set: netrpc | grpc | dual
	HostTLS  string `json:"host_tls"`  // "" | static | auto
	Mux      bool   `json:"mux"`
	Launch   string `json:"launch"`  // cmd | runner | reattach | cmd+runner (option conflict)
	Allowed  string `json:"allowed"` // default | netrpc | grpc | both
	Secure   bool   `json:"secure"`  // SecureConfig with the right checksum
	// plugin
	PlugProto string `json:"plug_proto"` // netrpc | grpc
	PlugTLS   string `json:"plug_tls"`   // "" | static
	Style     string `json:"style"`      // real | fake6 (old plugin: six fields) | fakefalse (seventh field "false") | fake4 (legacy plugin: four fields, net/rpc implied)
}

var (
	c14HostKinds = []string{"dual", "netrpc", "grpc"}
	c14HostTLS   = []string{"", "static", "auto"}
	c14Launch    = []string{"cmd", "runner", "reattach", "cmd+runner"}
	c14Allowed   = []string{"both", "default", "netrpc", "grpc"}
	c14Protos    = []string{"netrpc", "grpc"}
	c14PlugTLS   = []string{"", "static"}
	c14Styles    = []string{"real", "fake6", "fakefalse", "fake4"}
)

func c14Gen(t *rapid.T) any {
	c := &c14Case{}
	c.HostKind = c14HostKinds[weighted(t, "hostkind", 60, 20, 20)]
	c.HostTLS = c14HostTLS[weighted(t, "hosttls", 45, 30, 25)]
	c.Mux = pct(t, "mux", 40)
	c.Launch = c14Launch[weighted(t, "launch", 40, 30, 25, 5)]
	c.Allowed = c14Allowed[weighted(t, "allowed", 55, 15, 15, 15)]
	c.Secure = pct(t, "secure", 25)
	c.PlugProto = oneOf(t, "plugproto", c14Protos)
	c.PlugTLS = c14PlugTLS[weighted(t, "plugtls", 65, 35)]
	c.Style = c14Styles[weighted(t, "style", 70, 10, 10, 10)]
	// steer part of the sample into cells that a uniform draw rarely hits (by construction, not rejection)
	fixLaunch := func() {
		if c.Launch != "cmd" && c.Launch != "runner" {
			c.Launch = oneOf(t, "fixlaunch", []string{"cmd", "runner"})
		}
		if c.Launch == "runner" {
			c.Secure = false
		}
		if c.HostTLS == "auto" {
			c.PlugTLS = ""
		}
	}
	switch weighted(t, "steer", 53, 12, 10, 25) {
	case 1: // multiplexing requested from a plugin that does not advertise it
		fixLaunch()
		c.Mux, c.PlugProto = true, "grpc"
		c.Style = oneOf(t, "fakestyle", []string{"fake6", "fakefalse"})
		c.Allowed = oneOf(t, "allowgrpc", []string{"both", "grpc"})
	case 2: // protocol outside the allowed list
		fixLaunch()
		if rapid.Bool().Draw(t, "legacyline") {
			c.Style = "fake4"
			c.Allowed = "grpc"
		} else if c.PlugProto == "grpc" {
			c.Allowed = oneOf(t, "denygrpc", []string{"default", "netrpc"})
		} else {
			c.Allowed = "grpc"
		}
	case 3: // compatible, off-diagonal
		fixLaunch()
		c.Style = "real"
		c.Allowed = "both"
		c.HostKind = oneOf(t, "compatkind", []string{"dual", c.PlugProto})
		switch c.HostTLS {
		case "":
			c.PlugTLS = ""
		case "static":
			c.PlugTLS = "static"
		}
	}
	return c
}

func c14Enum() (int, func(i int) any) {
	dims := []int{len(c14HostKinds), len(c14HostTLS), 2, len(c14Launch), len(c14Allowed), 2, len(c14Protos), len(c14PlugTLS), len(c14Styles)}
	n := 1
	for _, d := range dims {
		n *= d
	}
	return n, func(i int) any {
		idx := make([]int, len(dims))
		for k, d := range dims {
			idx[k] = i % d
			i /= d
		}
		return &c14Case{HostKind: c14HostKinds[idx[0]], HostTLS: c14HostTLS[idx[1]], Mux: idx[2] == 1, Launch: c14Launch[idx[3]], Allowed: c14Allowed[idx[4]],
			Secure: idx[5] == 1, PlugProto: c14Protos[idx[6]], PlugTLS: c14PlugTLS[idx[7]], Style: c14Styles[idx[8]]}
	}
}

// c14Expect is the reference compatibility table, written from the documentation.
type c14Expect struct {
	class  string // what must happen
	detail string
}

const (
	c14Undefined   = "undefined"    // combination the documentation excludes; not executed
	c14OptionError = "option-error" // Start fails before launching anything
	c14StartError  = "start-error"  // Start fails after the handshake; plugin terminated
	c14MuxError    = "mux-error"    // Start fails with ErrGRPCBrokerMuxNotSupported; plugin terminated
	c14UseError    = "use-error"    // connects lazily, first use fails (transport security / plugin type mismatch)
	c14Works       = "works"        // end to end
	c14StartsOnly  = "starts-only"  // old-style fake plugin: only the start is judged
)

func (c *c14Case) allowedList() []string {
	switch c.Allowed {
	case "netrpc":
		return []string{"netrpc"}
	case "grpc":
		return []string{"grpc"}
	case "both":
		return []string{"netrpc", "grpc"}
	}
	return nil
}

func (c *c14Case) expect() c14Expect {
	allowed := map[string]bool{}
	if l := c.allowedList(); l == nil {
		allowed["netrpc"] = true
	} else {
		for _, a := range l {
			allowed[a] = true
		}
	}
	reattach := c.Launch == "reattach"
	switch {
	case c.Launch == "cmd+runner":
		return c14Expect{c14OptionError, "exactly one of Cmd, Reattach, RunnerFunc"}
	case reattach && c.Secure:
		return c14Expect{c14OptionError, "SecureConfig with Reattach"}
	case reattach && c.Mux:
		return c14Expect{c14OptionError, "multiplexing with Reattach"}
	case reattach && c.HostTLS == "auto":
		return c14Expect{c14Undefined, "AutoMTLS cannot be used with Reattach (documented)"}
	case reattach && c.Style != "real":
		return c14Expect{c14Undefined, "reattach needs a live served plugin"}
	case c.Secure && c.Launch == "runner":
		return c14Expect{c14Undefined, "SecureConfig checks the command path; there is none with a RunnerFunc"}
	case c.HostTLS == "auto" && c.PlugTLS == "static":
		// documented: with AutoMTLS the server should not set a TLSProvider
		return c14Expect{c14Undefined, "AutoMTLS with a TLSProvider on the plugin (documented as not to be combined)"}
	}
	if reattach {
		// the reattach configuration names the protocol; the plugin was started by a compatible first client
		if c.HostTLS != c.PlugTLS {
			return c14Expect{c14UseError, "transport security mismatch"}
		}
		if !c.kindSpeaks() {
			return c14Expect{c14UseError, "host plugin type cannot speak the protocol"}
		}
		return c14Expect{c14Works, ""}
	}
	if !allowed[c.proto()] {
		return c14Expect{c14StartError, "protocol not allowed"}
	}
	if c.Mux && c.proto() == "grpc" && c.Style != "real" {
		return c14Expect{c14MuxError, "plugin does not advertise multiplexing"}
	}
	if c.Style != "real" {
		return c14Expect{c14StartsOnly, ""}
	}
	tlsOK := (c.HostTLS == "" && c.PlugTLS == "") || (c.HostTLS == "static" && c.PlugTLS == "static") || (c.HostTLS == "auto" && c.PlugTLS == "")
	if !tlsOK {
		return c14Expect{c14UseError, "transport security mismatch"}
	}
	if !c.kindSpeaks() {
		return c14Expect{c14UseError, "host plugin type cannot speak the protocol"}
	}
	return c14Expect{c14Works, ""}
}

func (c *c14Case) kindSpeaks() bool {
	return c.HostKind == "dual" || c.HostKind == c.proto()
}

// proto is the protocol the plugin's handshake line stands for: a four-field legacy line implies net/rpc.
func (c *c14Case) proto() string {
	if c.Style == "fake4" {
		return "netrpc"
	}
	return c.PlugProto
}

var (
	c14SumOnce sync.Once
	c14Sum     []byte
	c14Seq     int64
)

func c14SelfSum() []byte {
	c14SumOnce.Do(func() {
		f, err := os.Open(selfExe())
		if err != nil {
			panic(err)
		}
		defer f.Close()
		h := sha256.New()
		io.Copy(h, f)
		c14Sum = h.Sum(nil)
	})
	return c14Sum
}

// brokered callback on the host side: accept id and serve a tag service
func c14HostAccept(h Handle, id uint32) {
	switch hh := h.(type) {
	case *grpcHandle:
		go hh.broker.AcceptAndServe(id, func(opts []grpc.ServerOption) *grpc.Server {
			s := grpc.NewServer(opts...)
			registerHarness(s, "verif.Brokered", &impl{tag: Tag{Pid: os.Getpid(), Broker: id, Side: "host", Proto: "grpc"}})
			return s
		})
	case *rpcHandle:
		go hh.mux.AcceptAndServe(id, &RPCService{im: &impl{tag: Tag{Pid: os.Getpid(), Broker: id, Side: "host", Proto: "netrpc"}}})
	}
}

// host dials id on its broker and asks who answers
func c14HostDial(h Handle, id uint32) (Reply, error) {
	switch hh := h.(type) {
	case *grpcHandle:
		cc, err := hh.broker.Dial(id)
		if err != nil {
			return Reply{}, err
		}
		defer cc.Close()
		return (&grpcHandle{cc: cc, service: "verif.Brokered"}).DoT(Cmd{Op: "tag"}, 20*time.Second)
	case *rpcHandle:
		conn, err := hh.mux.Dial(id)
		if err != nil {
			return Reply{}, err
		}
		rc := rpc.NewClient(conn)
		defer rc.Close()
		return (&rpcHandle{c: rc}).DoT(Cmd{Op: "tag"}, 20*time.Second)
	}
	return Reply{}, errors.New("unknown handle")
}

// c14BrokerBothWays: one brokered connection in each direction, identity checked.
func c14BrokerBothWays(h Handle) (string, error) {
	id := freshBrokerID()
	c14HostAccept(h, id)
	rr, err := h.DoT(Cmd{Op: "broker_dial", ID: id}, 30*time.Second)
	if err != nil {
		return "plugin dials host", err
	}
	if !strings.Contains(string(rr.B), fmt.Sprintf(`"broker":%d`, id)) || !strings.Contains(string(rr.B), `"side":"host"`) {
		return "plugin dials host", fmt.Errorf("answered by %s", rr.B)
	}
	id2 := freshBrokerID()
	if _, err := h.DoT(Cmd{Op: "broker_accept", ID: id2}, 20*time.Second); err != nil {
		return "host dials plugin", err
	}
	r2, err := c14HostDial(h, id2)
	if err != nil {
		return "host dials plugin", err
	}
	if r2.Tag.Broker != id2 || r2.Tag.Side != "plugin" {
		return "host dials plugin", fmt.Errorf("answered by %+v", r2.Tag)
	}
	return "", nil
}

// c14HostDialBlob: host dials id and asks the brokered server for a 5 MiB response.
func c14HostDialBlob(h Handle, id uint32) error {
	var bh Handle
	switch hh := h.(type) {
	case *grpcHandle:
		cc, err := hh.broker.Dial(id)
		if err != nil {
			return err
		}
		defer cc.Close()
		bh = &grpcHandle{cc: cc, service: "verif.Brokered"}
	case *rpcHandle:
		conn, err := hh.mux.Dial(id)
		if err != nil {
			return err
		}
		rc := rpc.NewClient(conn)
		defer rc.Close()
		bh = &rpcHandle{c: rc}
	default:
		return errors.New("unknown handle")
	}
	big, err := bh.DoT(Cmd{Op: "blob", N: 5 << 20}, 60*time.Second)
	if err != nil {
		return err
	}
	if len(big.B) != 5<<20 {
		return fmt.Errorf("got %d bytes", len(big.B))
	}
	return nil
}

// freshBrokerID hands out broker ids for the harness's own establishments. They start far above
// anything NextId returns, so they never collide with the ids the library allocates itself (the
// net/rpc Dispense path uses the plugin broker's NextId) — distinct ids are a documented precondition.
var brokerIDSeq uint32 = 100000

func freshBrokerID() uint32 { return atomic.AddUint32(&brokerIDSeq, 1) }

func hostNextID(h Handle) uint32 {
	switch hh := h.(type) {
	case *grpcHandle:
		return hh.broker.NextId()
	case *rpcHandle:
		return hh.mux.NextId()
	}
	return 0
}

// c14EndToEnd: dispense -> call -> brokered callback both ways -> ping -> large response.
func c14EndToEnd(cl *plugin.Client, wantProto string) (step string, err error) {
	h, cp, err := dispense(cl, "p")
	if err != nil {
		return "dispense", err
	}
	r, err := h.DoT(Cmd{Op: "tag"}, 20*time.Second)
	if err != nil {
		return "call", err
	}
	if r.Tag.Proto != wantProto || h.Proto() != wantProto {
		return "call", fmt.Errorf("answered over %s/%s, expected %s", h.Proto(), r.Tag.Proto, wantProto)
	}
	// plugin -> host callback
	id := freshBrokerID()
	c14HostAccept(h, id)
	rr, err := h.DoT(Cmd{Op: "broker_dial", ID: id, S: "blob"}, 90*time.Second)
	if err != nil {
		return "brokered callback (plugin dials host)", err
	}
	if !strings.Contains(string(rr.B), fmt.Sprintf(`"broker":%d`, id)) || !strings.Contains(string(rr.B), `"side":"host"`) {
		return "brokered callback (plugin dials host)", fmt.Errorf("answered by %s, expected the host server accepted on id %d", rr.B, id)
	}
	// host -> plugin brokered connection
	id2 := freshBrokerID()
	if _, err := h.DoT(Cmd{Op: "broker_accept", ID: id2}, 20*time.Second); err != nil {
		return "brokered connection (host dials plugin)", err
	}
	r2, err := c14HostDial(h, id2)
	if err != nil {
		return "brokered connection (host dials plugin)", err
	}
	if r2.Tag.Broker != id2 || r2.Tag.Side != "plugin" {
		return "brokered connection (host dials plugin)", fmt.Errorf("answered by %+v, expected the plugin server accepted on id %d", r2.Tag, id2)
	}
	// large responses over a brokered connection as well
	id3 := freshBrokerID()
	if _, err := h.DoT(Cmd{Op: "broker_accept", ID: id3}, 20*time.Second); err != nil {
		return "brokered connection (host dials plugin)", err
	}
	if err := c14HostDialBlob(h, id3); err != nil {
		return "5 MiB response over a brokered connection (host dials plugin)", err
	}
	if err := cp.Ping(); err != nil {
		return "ping", err
	}
	big, err := h.DoT(Cmd{Op: "blob", N: 5 << 20}, 60*time.Second)
	if err != nil {
		return "5 MiB response", err
	}
	if len(big.B) != 5<<20 || big.B[12345] != byte((12345*7+(5<<20))&0xff) {
		return "5 MiB response", fmt.Errorf("got %d bytes / wrong content", len(big.B))
	}
	if _, err := cp.Dispense("no-such-plugin"); err == nil {
		return "dispense of an unknown name", errors.New("no error")
	}
	return "", nil
}

func c14Run(ci any) (out Outcome) {
	c := ci.(*c14Case)
	exp := c.expect()
	out.label("expect:%s", exp.class)
	out.label("launch:%s", c.Launch)
	nonDefault := 0
	for _, b := range []bool{c.HostKind != "dual", c.HostTLS != "", c.Mux, c.Launch != "cmd", c.Allowed != "both", c.Secure, c.PlugTLS != "", c.Style != "real"} {
		if b {
			nonDefault++
		}
	}
	out.NonTrivial = nonDefault >= 2 || (exp.class != c14Works && exp.class != c14Undefined)
	if exp.class == c14Undefined {
		out.label("undefined:%s", exp.detail)
		out.NonTrivial = false
		return
	}
	caseDir := filepath.Join(scratchDir(), fmt.Sprintf("c14-%d", atomic.AddInt64(&c14Seq, 1)))
	os.MkdirAll(caseDir, 0o755)
	defer os.RemoveAll(caseDir)

	// ---- the plugin
	set := SetSpec{Kind: "dual"}
	ps := PluginSpec{LegacyVersion: 1, Legacy: &set, GRPCServer: c.PlugProto == "grpc"}
	if c.PlugTLS == "static" {
		ps.TLSCert, ps.TLSKey, _ = staticTLSFiles()
	}
	mkCmd := func() *exec.Cmd {
		if c.Style == "real" {
			return pluginCmd(ps)
		}
		line := "1|1|{NET}|{ADDR}|" + c.PlugProto + "|"
		switch c.Style {
		case "fakefalse":
			line += "|false"
		case "fake4":
			line = "1|1|{NET}|{ADDR}"
		}
		return fakeCmd(FakeSpec{Steps: []FakeStep{{Op: "listen"}, {Op: "out", Data: []byte(line + "\n")}, {Op: "forever"}}})
	}

	// ---- the host
	hostSet := SetSpec{Kind: c.HostKind}
	cc := &plugin.ClientConfig{
		HandshakeConfig:     plugin.HandshakeConfig{ProtocolVersion: 1, MagicCookieKey: defaultCookieKey, MagicCookieValue: defaultCookieValue},
		Plugins:             buildSet(hostSet, 1, "host"),
		Logger:              nullLogger(),
		StartTimeout:        10 * time.Second,
		GRPCBrokerMultiplex: c.Mux,
		UnixSocketConfig:    &plugin.UnixSocketConfig{TempDir: caseDir},
	}
	if l := c.allowedList(); l != nil {
		for _, a := range l {
			cc.AllowedProtocols = append(cc.AllowedProtocols, plugin.Protocol(a))
		}
	}
	switch c.HostTLS {
	case "static":
		cc.TLSConfig = hostStaticTLS()
	case "auto":
		cc.AutoMTLS = true
	}
	if c.Secure {
		cc.SecureConfig = &plugin.SecureConfig{Checksum: c14SelfSum(), Hash: sha256.New()}
	}
	var pidOf func() int
	var first *plugin.Client // the client that started the plugin we reattach to
	var er *execRunner
	rf := func(_ hclog.Logger, hc *exec.Cmd, _ string) (runner.Runner, error) {
		pc := mkCmd()
		pc.Env = append(os.Environ(), hc.Env...)
		r, err := newExecRunner(pc)
		er = r
		return r, err
	}
	switch c.Launch {
	case "cmd":
		cc.Cmd = mkCmd()
		pidOf = func() int {
			if cc.Cmd.Process != nil {
				return cc.Cmd.Process.Pid
			}
			return 0
		}
	case "runner":
		cc.RunnerFunc = rf
		pidOf = func() int {
			if er != nil {
				return er.pid
			}
			return 0
		}
	case "cmd+runner":
		cc.Cmd = mkCmd()
		cc.RunnerFunc = rf
		pidOf = func() int { return 0 }
	case "reattach":
		// start the plugin with a matching first client, then reattach with the configuration under test
		fc := &plugin.ClientConfig{
			HandshakeConfig:  cc.HandshakeConfig,
			Plugins:          buildSet(SetSpec{Kind: "dual"}, 1, "host"),
			AllowedProtocols: []plugin.Protocol{plugin.ProtocolNetRPC, plugin.ProtocolGRPC},
			Logger:           nullLogger(),
			StartTimeout:     10 * time.Second,
			Cmd:              mkCmd(),
		}
		if c.PlugTLS == "static" {
			fc.TLSConfig = hostStaticTLS()
		}
		first = plugin.NewClient(fc)
		defer killBounded(first, 20*time.Second)
		if _, err := first.Start(); err != nil {
			out.violate("could not start the plugin to reattach to: %v", err)
			return
		}
		rc := first.ReattachConfig()
		if rc == nil {
			out.violate("ReattachConfig() is nil after a successful Start")
			return
		}
		cc.Reattach = rc
		pidOf = func() int { return rc.Pid }
		if c.Secure || c.Mux {
			// option conflicts are judged below
		}
	}
	cl := plugin.NewClient(cc)
	defer killBounded(cl, 25*time.Second)

	var serr error
	var panicked any
	if _, ok := within(25*time.Second, func() {
		defer func() { panicked = recover() }()
		_, serr = cl.Start()
	}); !ok {
		out.Slow = "Start did not return within 25 s"
		return
	}
	if panicked != nil {
		out.violate("Start panicked: %v (case %+v)", panicked, *c)
		return
	}
	describe := fmt.Sprintf("host{kind=%s tls=%q mux=%v launch=%s allowed=%s secure=%v} plugin{proto=%s tls=%q style=%s}", c.HostKind, c.HostTLS, c.Mux, c.Launch, c.Allowed, c.Secure, c.PlugProto, c.PlugTLS, c.Style)

	// the client never speaks a protocol outside its allowed list (launch paths)
	if serr == nil && c.Launch != "reattach" {
		p := string(cl.Protocol())
		ok := false
		if l := c.allowedList(); l == nil {
			ok = p == "netrpc"
		} else {
			for _, a := range l {
				ok = ok || a == p
			}
		}
		if !ok {
			out.violate("client reports protocol %q outside its allowed list (%s); %s", p, c.Allowed, describe)
			return
		}
	}

	switch exp.class {
	case c14OptionError:
		if serr == nil {
			out.violate("Start succeeded although the options conflict (%s); %s", exp.detail, describe)
			return
		}
		if c.Launch == "reattach" && c.Secure && !errors.Is(serr, plugin.ErrSecureConfigAndReattach) {
			out.violate("SecureConfig+Reattach gave %q, expected ErrSecureConfigAndReattach", serr)
		}
		if c.Launch == "cmd+runner" && pidOf() != 0 {
			out.violate("a process was launched although the options conflict")
		}
	case c14StartError, c14MuxError:
		if serr == nil {
			out.violate("Start succeeded, expected an error (%s); %s", exp.detail, describe)
			return
		}
		if exp.class == c14MuxError && !errors.Is(serr, plugin.ErrGRPCBrokerMuxNotSupported) {
			out.violate("multiplexing requested from a plugin that does not advertise it: got %q, expected ErrGRPCBrokerMuxNotSupported; %s", firstLine(serr), describe)
			return
		}
		if pid := pidOf(); pid != 0 && !waitPidDead(pid, 3*time.Second) {
			out.violate("Start refused the configuration (%s) but plugin process %d is still alive 3 s later; %s", exp.detail, pid, describe)
		}
	case c14StartsOnly:
		if serr != nil {
			out.violate("Start failed against an old-style plugin line: %v; %s", firstLine(serr), describe)
		}
	case c14UseError:
		if serr != nil {
			return // surfaced even earlier: fine
		}
		var step string
		var err error
		if _, ok := within(15*time.Second, func() { step, err = c14EndToEnd(cl, c.PlugProto) }); !ok {
			out.Slow = fmt.Sprintf("first use with a mismatch (%s) neither worked nor failed within 15 s; %s", exp.detail, describe)
			return
		}
		if err == nil {
			out.violate("everything worked although the configurations mismatch (%s): silently downgraded connection? %s", exp.detail, describe)
		}
		_ = step
	case c14Works:
		if serr != nil {
			out.violate("Start failed for a compatible configuration: %v; %s", firstLine(serr), describe)
			return
		}
		var step string
		var err error
		if _, ok := within(90*time.Second, func() { step, err = c14EndToEnd(cl, c.PlugProto) }); !ok {
			out.Slow = fmt.Sprintf("end-to-end use did not finish within 90 s; %s", describe)
			return
		}
		if err != nil {
			if isTimeoutErr(err) {
				out.Slow = fmt.Sprintf("step %q timed out; %s", step, describe)
				return
			}
			out.violate("compatible configuration failed at step %q: %v; %s", step, firstLine(err), describe)
			return
		}
		if c.Launch == "reattach" {
			if string(cl.Protocol()) != c.PlugProto {
				out.violate("reattached client reports protocol %q, the plugin speaks %q", cl.Protocol(), c.PlugProto)
			}
		}
	}
	return
}

var propC14 = register(&Prop{
	ID:   "C14",
	Gen:  c14Gen,
	New:  func() any { return &c14Case{} },
	Run:  c14Run,
	Enum: c14Enum,
	Rule: "configuration product: host {plugin-type kind of its set, TLS none/static/AutoMTLS, mux, launch cmd/runner/reattach/cmd+runner, allowed list default/netrpc/grpc/both, SecureConfig} x plugin {net/rpc or gRPC, TLSProvider none/static, real mux-aware plugin / old-style fake printing six fields / fake announcing mux=false} = 9216 cells; " +
		"quick samples it with rapid, thorough enumerates it completely. Oracle: a reference table from the documentation: compatible => Start, dispense, call, brokered callback in both directions, ping, 5 MiB response, unknown-name error all work; " +
		"option conflicts => error before launch (ErrSecureConfigAndReattach via errors.Is); disallowed protocol / missing mux support => Start error (ErrGRPCBrokerMuxNotSupported via errors.Is) and the plugin is gone; transport-security or plugin-type mismatch => an error on first use within 15 s, never success; protocol always inside the allowed list. " +
		"Cells the documentation excludes (AutoMTLS+reattach, AutoMTLS+TLSProvider, SecureConfig+RunnerFunc, reattach to a fake) are counted as undefined and not executed. Non-trivial: two or more non-default dimensions, or a negative cell.",
	Assumptions: []string{"the reference table is the harness's reading of README/docs and the field comments of ClientConfig/ServeConfig", "reattach with a protocol outside the allowed list is not judged (the ReattachConfig names the protocol explicitly)"},
})
