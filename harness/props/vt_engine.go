//go:build go1.25

package props

// Virtual-time engine for the net/rpc MuxBroker (C06, C09): the whole
// rapid.Check runs inside one testing/synctest bubble, so the broker's 5-second
// timers are owned by the harness. See DESIGN.md §3.4 for the decision rule
// about stalls (a mutex wedge freezes virtual time and needs real-time
// confirmation).

import (
	"bytes"
	"encoding/binary"
	"errors"
	"fmt"
	"io"
	"net"
	"net/rpc"
	"os"
	"runtime"
	"strings"
	"sync"
	"sync/atomic"
	"testing"
	"testing/synctest"
	"time"

	plugin "github.com/hashicorp/go-plugin"
	"pgregory.net/rapid"
)

// muxCapture is a net/rpc Plugin that hands both MuxBrokers to the harness.
type muxCapture struct {
	name      string
	mu        sync.Mutex
	srvBroker *plugin.MuxBroker
	cliBroker *plugin.MuxBroker
}

func (m *muxCapture) Server(b *plugin.MuxBroker) (interface{}, error) {
	m.mu.Lock()
	m.srvBroker = b
	m.mu.Unlock()
	return &RPCService{im: &impl{tag: Tag{Name: m.name, Side: "plugin", Proto: "netrpc", Serial: atomic.AddInt64(&globalSerial, 1)}, mux: b}}, nil
}

func (m *muxCapture) Client(b *plugin.MuxBroker, c *rpc.Client) (interface{}, error) {
	m.mu.Lock()
	m.cliBroker = b
	m.mu.Unlock()
	return &rpcHandle{c: c, mux: b, name: m.name}, nil
}

// muxPair is an in-memory net/rpc host/plugin connection.
type muxPair struct {
	client *plugin.RPCClient
	server *plugin.RPCServer
	host   *plugin.MuxBroker
	plug   *plugin.MuxBroker
	c1, c2 net.Conn
}

func newMuxPair(names []string, realTCP bool) (*muxPair, error) {
	ps := map[string]plugin.Plugin{}
	ctl := &muxCapture{name: "ctl"}
	ps["ctl"] = ctl
	for _, n := range names {
		ps[n] = &muxCapture{name: n}
	}
	var c1, c2 net.Conn
	if realTCP {
		l, err := net.Listen("tcp", "127.0.0.1:0")
		if err != nil {
			return nil, err
		}
		ch := make(chan net.Conn, 1)
		go func() { c, _ := l.Accept(); ch <- c }()
		c1, err = net.Dial("tcp", l.Addr().String())
		if err != nil {
			return nil, err
		}
		c2 = <-ch
		l.Close()
	} else {
		c1, c2 = net.Pipe()
	}
	srv := &plugin.RPCServer{Plugins: ps, Stdout: new(bytes.Buffer), Stderr: new(bytes.Buffer)}
	go srv.ServeConn(c2)
	cl, err := plugin.NewRPCClient(c1, ps)
	if err != nil {
		return nil, err
	}
	if _, err := cl.Dispense("ctl"); err != nil {
		cl.Close()
		return nil, fmt.Errorf("dispense ctl: %w", err)
	}
	return &muxPair{client: cl, server: srv, host: ctl.cliBroker, plug: ctl.srvBroker, c1: c1, c2: c2}, nil
}

func (p *muxPair) close() {
	p.client.Close()
	p.c1.Close()
	p.c2.Close()
}

// ---------------------------------------------------------------------------
// Histories over the MuxBroker.

type vtOp struct {
	Kind string `json:"kind"` // pair | dial_only | accept_only | dup_dial | dispense
	ID   uint32 `json:"id"`
	// pair: who dials, when each side starts (ms)
	HostDials bool `json:"host_dials"`
	AcceptAt  int  `json:"accept_at_ms"`
	DialAt    int  `json:"dial_at_ms"`
	// payload sizes each way
	Up   int `json:"up"`
	Down int `json:"down"`
	// dup_dial: second dial offset; accept (if any) offset
	Dial2At int    `json:"dial2_at_ms,omitempty"`
	Name    string `json:"name,omitempty"` // dispense
	// HookMs delays the acceptor right after it took the parked connection
	HookMs int `json:"hook_ms,omitempty"`
	// HoldMs: the acceptor answers only this long after it received the dialer's bytes (a connection
	// that is used long after it was established); ReadLagMs: the dialer starts reading this late
	HoldMs    int `json:"hold_ms,omitempty"`
	ReadLagMs int `json:"read_lag_ms,omitempty"`
	// AccFirst: the accepting end speaks first, as soon as Accept has returned (the dialer reads
	// before it writes) - net/rpc's own use always has the dialer speak first
	AccFirst bool `json:"acc_first,omitempty"`
}

type vtCase struct {
	Ops []vtOp `json:"ops"`
	// Fresh: after the history (and a pause) a fresh matched pair must still work (C09)
	Fresh bool `json:"fresh"`
}

type vtResult struct {
	op      vtOp
	err     error
	elapsed time.Duration
	role    string
}

func token(id uint32, nonce uint32) []byte {
	b := make([]byte, 8)
	binary.LittleEndian.PutUint32(b, id)
	binary.LittleEndian.PutUint32(b[4:], nonce^0x5a5a5a5a)
	return b
}

func payload(id uint32, n int, dir byte) []byte {
	b := make([]byte, n)
	x := id*2654435761 + uint32(dir)
	for i := range b {
		x = x*1664525 + 1013904223
		b[i] = byte(x >> 24)
	}
	return b
}

// exchange runs over an established pair of connections: the dialer sends its token and Up bytes,
// the acceptor checks them and answers its token and Down bytes.
func exchangeDialer(conn net.Conn, op vtOp) error {
	conn.SetDeadline(time.Now().Add(60 * time.Second))
	if op.AccFirst {
		want := append(token(op.ID, 2), payload(op.ID, op.Down, 'd')...)
		got := make([]byte, len(want))
		if _, err := io.ReadFull(conn, got); err != nil {
			return fmt.Errorf("dialer read (acceptor speaks first): %w", err)
		}
		if !bytes.Equal(got, want) {
			return fmt.Errorf("ROUTING: the connection dialled for id %d did not deliver the acceptor's bytes complete and in order (acceptor speaks first; got %q..., want %q...)", op.ID, clip(got), clip(want))
		}
		if _, err := conn.Write(append(token(op.ID, 1), payload(op.ID, op.Up, 'u')...)); err != nil {
			return fmt.Errorf("dialer write: %w", err)
		}
		return nil
	}
	if _, err := conn.Write(append(token(op.ID, 1), payload(op.ID, op.Up, 'u')...)); err != nil {
		return fmt.Errorf("dialer write: %w", err)
	}
	if op.ReadLagMs > 0 {
		time.Sleep(time.Duration(op.HoldMs+op.ReadLagMs) * time.Millisecond)
	}
	want := append(token(op.ID, 2), payload(op.ID, op.Down, 'd')...)
	got := make([]byte, len(want))
	if _, err := io.ReadFull(conn, got); err != nil {
		return fmt.Errorf("dialer read: %w", err)
	}
	if !bytes.Equal(got, want) {
		return fmt.Errorf("ROUTING: the connection dialled for id %d delivered bytes of id %d", op.ID, binary.LittleEndian.Uint32(got))
	}
	return nil
}

func exchangeAcceptor(conn net.Conn, op vtOp) error {
	conn.SetReadDeadline(time.Now().Add(60 * time.Second)) // reads only: a write deadline is the library's business
	if op.AccFirst {
		if _, err := conn.Write(append(token(op.ID, 2), payload(op.ID, op.Down, 'd')...)); err != nil {
			return fmt.Errorf("acceptor write: %w", err)
		}
	}
	want := append(token(op.ID, 1), payload(op.ID, op.Up, 'u')...)
	got := make([]byte, len(want))
	if _, err := io.ReadFull(conn, got); err != nil {
		return fmt.Errorf("acceptor read: %w", err)
	}
	if !bytes.Equal(got, want) {
		return fmt.Errorf("ROUTING: the connection accepted for id %d carries bytes of id %d", op.ID, binary.LittleEndian.Uint32(got))
	}
	if op.AccFirst {
		return nil
	}
	if op.HoldMs > 0 {
		time.Sleep(time.Duration(op.HoldMs) * time.Millisecond)
	}
	if _, err := conn.Write(append(token(op.ID, 2), payload(op.ID, op.Down, 'd')...)); err != nil {
		return fmt.Errorf("acceptor write: %w", err)
	}
	return nil
}

var vtHookMu sync.Mutex
var vtHookDelay = map[uint32]time.Duration{}

// runHistory executes the ops concurrently on a fresh pair and returns per-op results.
func runHistory(c *vtCase, realTime bool) (results []vtResult, pair *muxPair, err error) {
	var names []string
	for _, op := range c.Ops {
		if op.Kind == "dispense" {
			names = append(names, op.Name)
		}
	}
	pair, err = newMuxPair(names, realTime)
	if err != nil {
		return nil, nil, err
	}
	var mu sync.Mutex
	add := func(r vtResult) { mu.Lock(); results = append(results, r); mu.Unlock() }
	var wg sync.WaitGroup
	run := func(role string, op vtOp, at int, f func() error) {
		wg.Add(1)
		go func() {
			defer wg.Done()
			time.Sleep(time.Duration(at) * time.Millisecond)
			start := time.Now()
			e := f()
			add(vtResult{op: op, err: e, elapsed: time.Since(start), role: role})
		}()
	}
	for _, op := range c.Ops {
		op := op
		acc, dia := pair.plug, pair.host
		if !op.HostDials {
			acc, dia = pair.host, pair.plug
		}
		switch op.Kind {
		case "pair":
			run("accept", op, op.AcceptAt, func() error {
				conn, err := acc.Accept(op.ID)
				if err != nil {
					return err
				}
				defer conn.Close()
				return exchangeAcceptor(conn, op)
			})
			run("dial", op, op.DialAt, func() error {
				conn, err := dia.Dial(op.ID)
				if err != nil {
					return err
				}
				defer conn.Close()
				return exchangeDialer(conn, op)
			})
		case "late_pair":
			run("accept-late", op, op.AcceptAt, func() error {
				conn, err := acc.Accept(op.ID)
				if err == nil {
					conn.Close()
				}
				return err
			})
			run("dial-late", op, op.DialAt, func() error {
				conn, err := dia.Dial(op.ID)
				if err == nil {
					conn.Close()
				}
				return err
			})
		case "dial_only":
			run("dial-unmatched", op, op.DialAt, func() error {
				conn, err := dia.Dial(op.ID)
				if err == nil {
					conn.Close()
				}
				return err
			})
		case "accept_only":
			run("accept-unmatched", op, op.AcceptAt, func() error {
				conn, err := acc.Accept(op.ID)
				if err == nil {
					conn.Close()
				}
				return err
			})
		case "dup_dial":
			// two dials to one id; an accept may or may not come (AcceptAt < 0: never)
			for i, at := range []int{op.DialAt, op.Dial2At} {
				role := fmt.Sprintf("dial-dup%d", i+1)
				run(role, op, at, func() error {
					conn, err := dia.Dial(op.ID)
					if err == nil {
						conn.Close()
					}
					return err
				})
			}
			if op.AcceptAt >= 0 {
				run("accept-dup", op, op.AcceptAt, func() error {
					conn, err := acc.Accept(op.ID)
					if err == nil {
						conn.Close()
					}
					return err
				})
			}
		case "dispense":
			run("dispense", op, op.DialAt, func() error {
				raw, err := pair.client.Dispense(op.Name)
				if err != nil {
					return err
				}
				h := raw.(*rpcHandle)
				r, err := h.DoT(Cmd{Op: "tag"}, 30*time.Second)
				if err != nil {
					return err
				}
				if r.Tag.Name != op.Name {
					return fmt.Errorf("ROUTING: dispensed %q but the server object of %q answered", op.Name, r.Tag.Name)
				}
				return nil
			})
		}
	}
	// every operation is bounded by about 5 s; one that has not returned 40 s after the last
	// start offset never will (in virtual time this is exact, on the wall clock it is generous)
	lastStart := 0
	for _, op := range c.Ops {
		lastStart = max(lastStart, op.AcceptAt, op.DialAt, op.Dial2At)
	}
	done := make(chan struct{})
	go func() { wg.Wait(); close(done) }()
	select {
	case <-done:
	case <-time.After(time.Duration(lastStart)*time.Millisecond + 40*time.Second):
		mu.Lock()
		returned := map[string]bool{}
		for _, r := range results {
			returned[fmt.Sprintf("%s/%d", r.role, r.op.ID)] = true
		}
		mu.Unlock()
		var stuck []string
		for _, g := range goPluginGoroutines() {
			if strings.Contains(g, "props.runHistory") {
				stuck = append(stuck, g)
			}
		}
		return results, pair, fmt.Errorf("NEVER-RETURNS: %d call(s) of the history %s had not returned 40 s after the last one started (returned so far: %v); blocked in:\n%s", len(stuck), describeOps(c.Ops), returned, trimStack(strings.Join(stuck, "\n\n")))
	}
	return results, pair, nil
}

// judgeHistory applies the oracles shared by C06 and C09.
func judgeHistory(out *Outcome, c *vtCase, results []vtResult, slack time.Duration) {
	// an injected delay between taking and acknowledging a connection legitimately adds to the latency
	for _, op := range c.Ops {
		if d := time.Duration(op.HookMs) * time.Millisecond; d > 0 {
			slack += d
		}
	}
	for _, r := range results {
		switch r.role {
		case "accept", "dial", "dispense":
			if r.err != nil {
				if strings.HasPrefix(r.err.Error(), "ROUTING") {
					out.violate("%v", r.err)
				} else {
					out.violate("%s of id %d (accept at %d ms, dial at %d ms, host dials=%v, %d ops in the history) failed inside the pending window: %v", r.role, r.op.ID, r.op.AcceptAt, r.op.DialAt, r.op.HostDials, len(c.Ops), r.err)
				}
				return
			}
		case "dial-unmatched", "accept-unmatched":
			if r.err == nil {
				out.violate("%s of id %d succeeded although no peer ever showed up", r.role, r.op.ID)
				return
			}
			if r.elapsed > 5*time.Second+slack {
				out.violate("%s of id %d returned after %v, bound is about 5 s", r.role, r.op.ID, r.elapsed)
				return
			}
		case "dial-dup1", "dial-dup2", "accept-dup", "accept-late", "dial-late":
			// at most one dial can be matched; every call returns within the bound
			if r.elapsed > 5*time.Second+slack {
				out.violate("%s of id %d returned after %v (err %v), bound is about 5 s", r.role, r.op.ID, r.elapsed, r.err)
				return
			}
		}
	}
	// duplicates: never two successful dials for one accept
	okDials := map[uint32]int{}
	accepts := map[uint32]bool{}
	for _, r := range results {
		if strings.HasPrefix(r.role, "dial-dup") && r.err == nil {
			okDials[r.op.ID]++
		}
		if r.role == "accept-dup" && r.err == nil {
			accepts[r.op.ID] = true
		}
	}
	for id, n := range okDials {
		if n > 1 || (n == 1 && !accepts[id]) {
			out.violate("%d dials to id %d succeeded with %v accept", n, id, accepts[id])
			return
		}
	}
}

// goPluginGoroutines returns stacks of goroutines that are inside go-plugin or yamux code.
func goPluginGoroutines() []string {
	buf := make([]byte, 1<<20)
	n := runtime.Stack(buf, true)
	var leaked []string
	for _, g := range strings.Split(string(buf[:n]), "\n\n") {
		if strings.Contains(g, "github.com/hashicorp/go-plugin.") || strings.Contains(g, "github.com/hashicorp/yamux.") {
			if strings.Contains(g, "props.goPluginGoroutines") {
				continue
			}
			leaked = append(leaked, g)
		}
	}
	return leaked
}

// vtRun executes one case. In a bubble time is virtual and exact; with realTime the same
// history runs on the wall clock over TCP (confirmation of stalls, generous slack).
func vtRun(c *vtCase, realTime bool, wantFresh, wantDrain bool) (out Outcome) {
	slack := time.Millisecond
	if realTime {
		slack = 10 * time.Second
	}
	vtHookMu.Lock()
	vtHookDelay = map[uint32]time.Duration{}
	for _, op := range c.Ops {
		if op.HookMs > 0 {
			vtHookDelay[op.ID] = time.Duration(op.HookMs) * time.Millisecond
		}
	}
	vtHookMu.Unlock()
	results, pair, err := runHistory(c, realTime)
	if pair != nil {
		defer pair.close()
	}
	if err != nil {
		if strings.HasPrefix(err.Error(), "NEVER-RETURNS") {
			out.violate("%v", err)
		} else {
			out.violate("could not build the net/rpc pair: %v", err)
		}
		return
	}
	judgeHistory(&out, c, results, slack)
	if out.Violation != "" {
		return
	}
	if wantFresh {
		// let every expiry timer of the history fire, then a fresh pair on a new id must work
		time.Sleep(6 * time.Second)
		fresh := vtOp{Kind: "pair", ID: 900001, HostDials: true, AcceptAt: 0, DialAt: 1, Up: 10, Down: 10}
		done := make(chan []vtResult, 1)
		go func() {
			var rs []vtResult
			var mu sync.Mutex
			var wg sync.WaitGroup
			wg.Add(2)
			go func() {
				defer wg.Done()
				conn, err := pair.plug.Accept(fresh.ID)
				if err == nil {
					err = exchangeAcceptor(conn, fresh)
					conn.Close()
				}
				mu.Lock()
				rs = append(rs, vtResult{op: fresh, err: err, role: "accept"})
				mu.Unlock()
			}()
			go func() {
				defer wg.Done()
				time.Sleep(time.Millisecond)
				conn, err := pair.host.Dial(fresh.ID)
				if err == nil {
					err = exchangeDialer(conn, fresh)
					conn.Close()
				}
				mu.Lock()
				rs = append(rs, vtResult{op: fresh, err: err, role: "dial"})
				mu.Unlock()
			}()
			wg.Wait()
			done <- rs
		}()
		var rs []vtResult
		if realTime {
			select {
			case rs = <-done:
			case <-time.After(20 * time.Second):
				out.violate("after the history %s an accept/dial pair on a fresh id did not complete within 20 s of real time: the broker is wedged; goroutines inside go-plugin:\n%s", describeOps(c.Ops), strings.Join(goPluginGoroutines(), "\n\n"))
				return
			}
		} else {
			rs = <-done // a wedge shows up as a virtual-time stall, caught by the watchdog outside the bubble
		}
		for _, r := range rs {
			if r.err != nil {
				out.violate("after the history %s a fresh %s on a new id failed: %v", describeOps(c.Ops), r.role, r.err)
				return
			}
		}
	}
	if wantDrain && !realTime {
		pair.close()
		time.Sleep(6 * time.Second)
		synctest.Wait()
		if left := goPluginGoroutines(); len(left) > 0 {
			out.violate("after closing the client %d goroutine(s) started by go-plugin remain (history %s); first:\n%s", len(left), describeOps(c.Ops), trimStack(left[0]))
			return
		}
	}
	return
}

func describeOps(ops []vtOp) string {
	var s []string
	for _, op := range ops {
		switch op.Kind {
		case "pair":
			s = append(s, fmt.Sprintf("pair(id %d accept@%d dial@%d hook %d)", op.ID, op.AcceptAt, op.DialAt, op.HookMs))
		case "dup_dial":
			s = append(s, fmt.Sprintf("dup_dial(id %d dial@%d dial@%d accept@%d hook %d)", op.ID, op.DialAt, op.Dial2At, op.AcceptAt, op.HookMs))
		default:
			s = append(s, fmt.Sprintf("%s(id %d @%d)", op.Kind, op.ID, max(op.AcceptAt, op.DialAt)))
		}
	}
	return "[" + strings.Join(s, " ") + "]"
}

// vtHook is installed with verifhook.Set: it delays the acceptor right after it took a parked connection.
func vtHookFor(id uint32) time.Duration {
	vtHookMu.Lock()
	defer vtHookMu.Unlock()
	return vtHookDelay[id]
}

// ---------------------------------------------------------------------------
// Running a property inside one bubble, with a real-time watchdog outside it.

var errStall = errors.New("stall")

func runInBubble(t *testing.T, p *Prop) {
	if os.Getenv("VERIF_REALTIME") != "" {
		// real-time confirmation / replay: no bubble
		RunProp(t, p)
		return
	}
	start := atomic.LoadInt64(&progress)
	stop := make(chan struct{})
	go func() { // watchdog on the wall clock (started outside the bubble)
		last, lastChange := start, time.Now()
		for {
			select {
			case <-stop:
				return
			case <-time.After(500 * time.Millisecond):
			}
			cur := atomic.LoadInt64(&progress)
			if cur != last {
				last, lastChange = cur, time.Now()
				continue
			}
			if time.Since(lastChange) > 15*time.Second {
				st := liveStats.Load()
				buf := make([]byte, 1<<20)
				n := runtime.Stack(buf, true)
				var dump []string
				for _, g := range strings.Split(string(buf[:n]), "\n\n") {
					if strings.Contains(g, "hashicorp/go-plugin.") {
						dump = append(dump, g)
					}
				}
				if d := outDir(); d != "" {
					os.WriteFile(d+"/stall-dump.txt", buf[:n], 0o644)
				}
				if st != nil {
					cur, _ := os.ReadFile(st.outPath[:len(st.outPath)-len("stats.json")] + "current.json")
					st.mu.Lock()
					st.Slow = append(st.Slow, ViolationRec{Message: "virtual time stalled for 15 s of real time (a goroutine blocked on a mutex keeps the clock from advancing); goroutines inside go-plugin:\n" + trimStack(strings.Join(dump, "\n\n")), Case: cur})
					st.Completed = true
					st.mu.Unlock()
					st.write()
				}
				os.Exit(4)
			}
		}
	}()
	defer close(stop)
	synctest.Test(t, func(t *testing.T) {
		runPropTB(t, struct{ rapid.TB }{t}, p)
	})
}
