package props

// The configurable plugin: plugin types (net/rpc, gRPC, dual), the generic
// command service they expose, and the plugin-process main.

import (
	"context"
	"crypto/tls"
	"crypto/x509"
	"encoding/json"
	"errors"
	"fmt"
	"google.golang.org/grpc/credentials"
	"io"
	"net"
	"net/rpc"
	"os"
	"os/signal"
	"sort"
	"strconv"
	"strings"
	"sync"
	"sync/atomic"
	"syscall"
	"time"

	plugin "github.com/hashicorp/go-plugin"
	"google.golang.org/grpc"
	"google.golang.org/protobuf/types/known/wrapperspb"
)

// ---------------------------------------------------------------------------
// Wire types of the generic command service.

type Write struct {
	Stream string `json:"s"` // "out" | "err"
	Data   []byte `json:"d"`
	// RPC: perform a no-op round trip marker (host side interleaving), unused by plugin
}

type Cmd struct {
	Op     string  `json:"op"`
	N      int     `json:"n,omitempty"`
	S      string  `json:"s,omitempty"`
	B      []byte  `json:"b,omitempty"`
	ID     uint32  `json:"id,omitempty"`
	Writes []Write `json:"w,omitempty"`
}

// Tag identifies the implementation that answered.
type Tag struct {
	Pid     int    `json:"pid"`
	Version int    `json:"version"` // version the implementation was registered under
	Kind    string `json:"kind"`    // plugin type kind of the set: netrpc|grpc|dual
	Proto   string `json:"proto"`   // protocol the implementation was reached over
	Name    string `json:"name"`
	Serial  int64  `json:"serial"`
	Broker  uint32 `json:"broker,omitempty"` // set when answered by a brokered server
	Side    string `json:"side,omitempty"`   // "plugin" | "host"
}

type Reply struct {
	Tag  Tag      `json:"tag"`
	N    int      `json:"n,omitempty"`
	S    string   `json:"s,omitempty"`
	B    []byte   `json:"b,omitempty"`
	List []string `json:"list,omitempty"`
	Err  string   `json:"err,omitempty"`
}

// ---------------------------------------------------------------------------
// Plugin specification (what the plugin process serves).

type SetSpec struct {
	Kind  string   `json:"kind"` // netrpc | grpc | dual
	Names []string `json:"names,omitempty"`
}

type AfterSpec struct {
	Mode    string `json:"mode,omitempty"` // "" exit | "sleep_marker" | "never"
	DelayMs int    `json:"delay_ms,omitempty"`
	Marker  string `json:"marker,omitempty"`
}

type PluginSpec struct {
	CookieKey     string          `json:"cookie_key"`
	CookieValue   string          `json:"cookie_value"`
	LegacyVersion uint            `json:"legacy_version,omitempty"`
	Legacy        *SetSpec        `json:"legacy,omitempty"`
	Versioned     map[int]SetSpec `json:"versioned,omitempty"`
	GRPCServer    bool            `json:"grpc_server,omitempty"`
	TLSCert       string          `json:"tls_cert,omitempty"` // PEM files for a static TLSProvider
	TLSKey        string          `json:"tls_key,omitempty"`
	After         AfterSpec       `json:"after,omitempty"`
	MaxLifeMs     int             `json:"max_life_ms,omitempty"`
	StartMarker   string          `json:"start_marker,omitempty"` // file appended to when the process starts
	NoParentWatch bool            `json:"no_parent_watch,omitempty"`
	// IgnoreClientCert: behave like a plugin that knows nothing about AutoMTLS (an older or non-Go
	// implementation): PLUGIN_CLIENT_CERT is dropped before Serve, so no certificate is announced
	// and the plugin serves without TLS
	IgnoreClientCert bool `json:"ignore_client_cert,omitempty"`
	// PreAttach is written to os.Stdout/os.Stderr as soon as Serve has swapped them for its pipes
	PreAttach []Write `json:"pre_attach,omitempty"`
}

const defaultCookieKey = "VERIF_PLUGIN_COOKIE"
const defaultCookieValue = "d41d8cd98f00b204e9800998ecf8427e"

func (s *PluginSpec) fill() {
	if s.CookieKey == "" && s.CookieValue == "" {
		s.CookieKey, s.CookieValue = defaultCookieKey, defaultCookieValue
	}
}

func setNames(s SetSpec) []string {
	if len(s.Names) == 0 {
		return []string{"p"}
	}
	return s.Names
}

// buildSet makes a plugin.PluginSet for one side. side is "plugin" or "host".
func buildSet(s SetSpec, version int, side string) plugin.PluginSet {
	ps := plugin.PluginSet{}
	for _, n := range setNames(s) {
		base := &basePlugin{version: version, kind: s.Kind, name: n, side: side}
		switch s.Kind {
		case "netrpc":
			ps[n] = &netrpcOnlyPlugin{base}
		case "grpc":
			ps[n] = &grpcOnlyPlugin{basePlugin: base}
		case "dual":
			ps[n] = &dualPlugin{base}
		default:
			panic("bad set kind " + s.Kind)
		}
	}
	return ps
}

// ---------------------------------------------------------------------------
// Plugin types.

type basePlugin struct {
	version int
	kind    string
	name    string
	side    string
	serial  int64

	// host side: last handles created (for tests that need the broker)
	mu      sync.Mutex
	handles []Handle
}

func (b *basePlugin) newImpl(proto string) *impl {
	return &impl{
		tag: Tag{Pid: os.Getpid(), Version: b.version, Kind: b.kind, Proto: proto, Name: b.name,
			Serial: atomic.AddInt64(&globalSerial, 1), Side: b.side},
	}
}

var globalSerial int64

func (b *basePlugin) rpcServer(mb *plugin.MuxBroker) (interface{}, error) {
	im := b.newImpl("netrpc")
	im.mux = mb
	return &RPCService{im: im}, nil
}

func (b *basePlugin) rpcClient(mb *plugin.MuxBroker, c *rpc.Client) (interface{}, error) {
	h := &rpcHandle{c: c, mux: mb, stubVersion: b.version, stubKind: b.kind, name: b.name}
	return h, nil
}

func (b *basePlugin) grpcServer(br *plugin.GRPCBroker, s *grpc.Server) error {
	im := b.newImpl("grpc")
	im.grpcb = br
	registerHarness(s, "verif.Harness."+b.name, im)
	return nil
}

func (b *basePlugin) grpcClient(ctx context.Context, br *plugin.GRPCBroker, cc *grpc.ClientConn) (interface{}, error) {
	return &grpcHandle{cc: cc, broker: br, ctx: ctx, service: "verif.Harness." + b.name,
		stubVersion: b.version, stubKind: b.kind, name: b.name}, nil
}

type netrpcOnlyPlugin struct{ *basePlugin }

func (p *netrpcOnlyPlugin) Server(b *plugin.MuxBroker) (interface{}, error) { return p.rpcServer(b) }
func (p *netrpcOnlyPlugin) Client(b *plugin.MuxBroker, c *rpc.Client) (interface{}, error) {
	return p.rpcClient(b, c)
}

type grpcOnlyPlugin struct {
	plugin.NetRPCUnsupportedPlugin
	*basePlugin
}

func (p *grpcOnlyPlugin) GRPCServer(b *plugin.GRPCBroker, s *grpc.Server) error {
	return p.grpcServer(b, s)
}
func (p *grpcOnlyPlugin) GRPCClient(ctx context.Context, b *plugin.GRPCBroker, c *grpc.ClientConn) (interface{}, error) {
	return p.grpcClient(ctx, b, c)
}

type dualPlugin struct{ *basePlugin }

func (p *dualPlugin) Server(b *plugin.MuxBroker) (interface{}, error) { return p.rpcServer(b) }
func (p *dualPlugin) Client(b *plugin.MuxBroker, c *rpc.Client) (interface{}, error) {
	return p.rpcClient(b, c)
}
func (p *dualPlugin) GRPCServer(b *plugin.GRPCBroker, s *grpc.Server) error {
	return p.grpcServer(b, s)
}
func (p *dualPlugin) GRPCClient(ctx context.Context, b *plugin.GRPCBroker, c *grpc.ClientConn) (interface{}, error) {
	return p.grpcClient(ctx, b, c)
}

// ---------------------------------------------------------------------------
// The implementation behind the command service (runs in the plugin, and in
// the host for brokered callbacks).

type impl struct {
	tag   Tag
	mux   *plugin.MuxBroker
	grpcb *plugin.GRPCBroker
	calls int64 // requests this implementation answered
}

// process-wide state of the plugin process
var (
	procKV      sync.Map
	procCounter int64
)

func (im *impl) handle(c Cmd) (r Reply, err error) {
	atomic.AddInt64(&procCounter, 1)
	atomic.AddInt64(&im.calls, 1)
	r.Tag = im.tag
	switch c.Op {
	case "tag":
	case "echo":
		r.B = c.B
		r.S = c.S
	case "blob":
		b := make([]byte, c.N)
		for i := range b {
			b[i] = byte(i*7 + c.N)
		}
		r.B = b
	case "count":
		r.N = int(atomic.LoadInt64(&procCounter))
	case "sleep":
		time.Sleep(time.Duration(c.N) * time.Millisecond)
	case "exit":
		os.Exit(c.N)
	case "kill9":
		syscall.Kill(os.Getpid(), syscall.SIGKILL)
		time.Sleep(time.Hour)
	case "freeze":
		go func() {
			time.Sleep(time.Duration(c.N) * time.Millisecond)
			syscall.Kill(os.Getpid(), syscall.SIGSTOP)
		}()
	case "set":
		procKV.Store(c.S, string(c.B))
	case "get":
		if v, ok := procKV.Load(c.S); ok {
			r.S = v.(string)
			r.N = 1
		}
	case "write":
		for _, w := range c.Writes {
			f := os.Stdout
			if w.Stream == "err" {
				f = os.Stderr
			}
			if _, werr := f.Write(w.Data); werr != nil {
				return r, fmt.Errorf("write %s: %v", w.Stream, werr)
			}
		}
	case "writepar":
		// stdout writes and stderr writes run concurrently; each stream's own writes stay in order
		var wg sync.WaitGroup
		errs := make([]error, 2)
		for i, stream := range []string{"out", "err"} {
			wg.Add(1)
			go func(i int, stream string) {
				defer wg.Done()
				f := os.Stdout
				if stream == "err" {
					f = os.Stderr
				}
				for _, w := range c.Writes {
					if w.Stream != stream {
						continue
					}
					if _, werr := f.Write(w.Data); werr != nil {
						errs[i] = werr
						return
					}
				}
			}(i, stream)
		}
		wg.Wait()
		for _, e := range errs {
			if e != nil {
				return r, e
			}
		}
	case "prewait":
		// returns once the pre-attach writer goroutine has written everything
		select {
		case <-preAttachDone:
		case <-time.After(time.Duration(c.N) * time.Millisecond):
			return r, errors.New("pre-attach writer still blocked")
		}
	case "env":
		r.List = os.Environ()
	case "lsdir":
		ents, derr := os.ReadDir(c.S)
		if derr != nil {
			return r, derr
		}
		for _, e := range ents {
			r.List = append(r.List, e.Name())
		}
		sort.Strings(r.List)
	case "nextid":
		// c.N > 1: a burst of allocations, all returned
		n := max(c.N, 1)
		for i := 0; i < n; i++ {
			var id uint32
			if im.grpcb != nil {
				id = im.grpcb.NextId()
			} else if im.mux != nil {
				id = im.mux.NextId()
			}
			r.N = int(id)
			if n > 1 {
				r.List = append(r.List, strconv.Itoa(int(id)))
			}
		}
	case "broker_accept_rogue":
		// Accept id, but serve the listener with credentials of our own choosing (S: samename =
		// a fresh certificate carrying go-plugin's subject and SAN, plaintext = none) instead of the
		// ones AcceptAndServe would use: what a dialler sees when something else answers at the
		// announced address.
		if im.grpcb == nil {
			return r, errors.New("no gRPC broker")
		}
		ln, err := im.grpcb.Accept(c.ID)
		if err != nil {
			return r, err
		}
		srv := rogueServer(c.S, &impl{tag: Tag{Pid: os.Getpid(), Broker: c.ID, Side: im.tag.Side + "-rogue", Proto: "grpc"}})
		brokered.Store(c.ID, srv.Stop)
		go srv.Serve(ln)
		return r, nil
	case "broker_accept":
		// Accept id in the background and serve a tag service on it. The reply
		// returns at once; the listener is (for the non-multiplexed gRPC broker)
		// announced by the goroutine.
		return r, im.brokerAccept(c)
	case "broker_stop":
		// stop a brokered server this process started earlier (the caller is done with it)
		if f, ok := brokered.Load(c.ID); ok {
			f.(func())()
		}
	case "broker_dial":
		// Dial id, call "tag" on it and report who answered.
		rr, derr := im.brokerDial(c)
		if derr != nil {
			return r, derr
		}
		b, _ := json.Marshal(rr)
		r.B = b
	default:
		return r, fmt.Errorf("unknown op %q", c.Op)
	}
	return r, nil
}

var preAttachDone = make(chan struct{})

// brokered servers we started, so a later command can stop them
var brokered sync.Map // id -> func()

func (im *impl) brokerAccept(c Cmd) error {
	id := c.ID
	switch {
	case im.grpcb != nil:
		br := im.grpcb
		side := im.tag.Side
		delay := time.Duration(c.N) * time.Millisecond
		go func() {
			time.Sleep(delay)
			br.AcceptAndServe(id, func(opts []grpc.ServerOption) *grpc.Server {
				s := grpc.NewServer(opts...)
				registerHarness(s, "verif.Brokered", &impl{tag: Tag{Pid: os.Getpid(), Broker: id, Side: side, Proto: "grpc", Serial: atomic.AddInt64(&globalSerial, 1)}, grpcb: br})
				brokered.Store(id, s.Stop)
				return s
			})
		}()
		return nil
	case im.mux != nil:
		mb := im.mux
		side := im.tag.Side
		delay := time.Duration(c.N) * time.Millisecond
		go func() {
			time.Sleep(delay)
			mb.AcceptAndServe(id, &RPCService{im: &impl{tag: Tag{Pid: os.Getpid(), Broker: id, Side: side, Proto: "netrpc", Serial: atomic.AddInt64(&globalSerial, 1)}, mux: mb}})
		}()
		return nil
	}
	return errors.New("no broker")
}

func (im *impl) brokerDial(c Cmd) (Reply, error) {
	id := c.ID
	if c.N > 0 {
		time.Sleep(time.Duration(c.N) * time.Millisecond)
	}
	switch {
	case im.grpcb != nil:
		cc, err := im.grpcb.Dial(id)
		if err != nil {
			return Reply{}, fmt.Errorf("dial %d: %v", id, err)
		}
		defer cc.Close()
		h := &grpcHandle{cc: cc, ctx: context.Background(), service: "verif.Brokered"}
		return brokeredExchange(h, c)
	case im.mux != nil:
		conn, err := im.mux.Dial(id)
		if err != nil {
			return Reply{}, fmt.Errorf("dial %d: %v", id, err)
		}
		rc := rpc.NewClient(conn)
		defer rc.Close()
		h := &rpcHandle{c: rc}
		return brokeredExchange(h, c)
	}
	return Reply{}, errors.New("no broker")
}

// rogueServer: a gRPC server with the harness service that presents a certificate of the harness's
// own making (same subject and SAN as go-plugin's one-time certificates, other key) or no TLS at all.
func rogueServer(kind string, im *impl) *grpc.Server {
	var opts []grpc.ServerOption
	if kind != "plaintext" {
		certPEM, keyPEM, err := genCertPEM("localhost")
		if err != nil {
			panic(err)
		}
		pair, err := tls.X509KeyPair(certPEM, keyPEM)
		if err != nil {
			panic(err)
		}
		opts = append(opts, grpc.Creds(credentials.NewTLS(&tls.Config{Certificates: []tls.Certificate{pair}, ClientAuth: tls.RequestClientCert})))
	}
	s := grpc.NewServer(opts...)
	registerHarness(s, "verif.Brokered", im)
	return s
}

// brokeredExchange: who answers on the brokered connection; with S == "blob" also a 5 MiB response.
func brokeredExchange(h Handle, c Cmd) (Reply, error) {
	r, err := h.DoT(Cmd{Op: "tag"}, 20*time.Second)
	if err != nil || c.S != "blob" {
		return r, err
	}
	big, err := h.DoT(Cmd{Op: "blob", N: 5 << 20}, 60*time.Second)
	if err != nil {
		return r, fmt.Errorf("5 MiB response over the brokered connection: %v", err)
	}
	if len(big.B) != 5<<20 {
		return r, fmt.Errorf("5 MiB response over the brokered connection: got %d bytes", len(big.B))
	}
	return r, nil
}

// ---------------------------------------------------------------------------
// net/rpc service and handle.

type RPCService struct{ im *impl }

func (s *RPCService) Do(args []byte, resp *[]byte) error {
	var c Cmd
	if err := json.Unmarshal(args, &c); err != nil {
		return err
	}
	r, err := s.im.handle(c)
	if err != nil {
		return err
	}
	*resp, _ = json.Marshal(r)
	return nil
}

// Handle is what a dispensed plugin looks like to the harness.
type Handle interface {
	Do(Cmd) (Reply, error)
	DoT(Cmd, time.Duration) (Reply, error)
	StubVersion() int
	StubKind() string
	Proto() string
	Close() error
}

var errCallTimeout = errors.New("harness: call did not return in time")

type rpcHandle struct {
	c           *rpc.Client
	mux         *plugin.MuxBroker
	stubVersion int
	stubKind    string
	name        string
}

func (h *rpcHandle) Do(c Cmd) (Reply, error) { return h.DoT(c, 30*time.Second) }
func (h *rpcHandle) DoT(c Cmd, d time.Duration) (Reply, error) {
	args, _ := json.Marshal(c)
	var out []byte
	call := h.c.Go("Plugin.Do", args, &out, make(chan *rpc.Call, 1))
	select {
	case <-call.Done:
	case <-time.After(d):
		return Reply{}, errCallTimeout
	}
	if call.Error != nil {
		return Reply{}, call.Error
	}
	var r Reply
	if err := json.Unmarshal(out, &r); err != nil {
		return Reply{}, err
	}
	return r, nil
}
func (h *rpcHandle) StubVersion() int { return h.stubVersion }
func (h *rpcHandle) StubKind() string { return h.stubKind }
func (h *rpcHandle) Proto() string    { return "netrpc" }
func (h *rpcHandle) Close() error     { return h.c.Close() }

// ---------------------------------------------------------------------------
// gRPC service (hand-written descriptor over BytesValue; payload is JSON).

type harnessServer interface {
	handle(Cmd) (Reply, error)
}

func registerHarness(s *grpc.Server, service string, im harnessServer) {
	desc := &grpc.ServiceDesc{
		ServiceName: service,
		HandlerType: (*harnessServer)(nil),
		Methods: []grpc.MethodDesc{{
			MethodName: "Do",
			Handler: func(srv interface{}, ctx context.Context, dec func(interface{}) error, _ grpc.UnaryServerInterceptor) (interface{}, error) {
				in := new(wrapperspb.BytesValue)
				if err := dec(in); err != nil {
					return nil, err
				}
				var c Cmd
				if err := json.Unmarshal(in.Value, &c); err != nil {
					return nil, err
				}
				r, err := srv.(harnessServer).handle(c)
				if err != nil {
					return nil, err
				}
				b, _ := json.Marshal(r)
				return wrapperspb.Bytes(b), nil
			},
		}},
		Streams: []grpc.StreamDesc{{
			StreamName:    "Stream",
			ServerStreams: true,
			Handler: func(srv interface{}, stream grpc.ServerStream) error {
				in := new(wrapperspb.BytesValue)
				if err := stream.RecvMsg(in); err != nil {
					return err
				}
				var c Cmd
				if err := json.Unmarshal(in.Value, &c); err != nil {
					return err
				}
				// c.N messages, c.ID (if non-zero) = index at which to run c.S as op
				for i := 0; i < c.N; i++ {
					if c.S != "" && int(c.ID) == i {
						if _, err := srv.(harnessServer).handle(Cmd{Op: c.S}); err != nil {
							return err
						}
					}
					r := Reply{N: i}
					b, _ := json.Marshal(r)
					if err := stream.SendMsg(wrapperspb.Bytes(b)); err != nil {
						return err
					}
					time.Sleep(2 * time.Millisecond)
				}
				return nil
			},
		}},
		Metadata: "verif",
	}
	s.RegisterService(desc, im)
}

type grpcHandle struct {
	cc          *grpc.ClientConn
	broker      *plugin.GRPCBroker
	ctx         context.Context // the doneCtx handed over by go-plugin
	service     string
	stubVersion int
	stubKind    string
	name        string
}

func (h *grpcHandle) Do(c Cmd) (Reply, error) { return h.DoT(c, 30*time.Second) }
func (h *grpcHandle) DoT(c Cmd, d time.Duration) (Reply, error) {
	ctx, cancel := context.WithTimeout(context.Background(), d)
	defer cancel()
	args, _ := json.Marshal(c)
	out := new(wrapperspb.BytesValue)
	err := h.cc.Invoke(ctx, "/"+h.service+"/Do", wrapperspb.Bytes(args), out)
	if err != nil {
		if ctx.Err() == context.DeadlineExceeded {
			return Reply{}, errCallTimeout
		}
		return Reply{}, err
	}
	var r Reply
	if err := json.Unmarshal(out.Value, &r); err != nil {
		return Reply{}, err
	}
	return r, nil
}

// StreamN asks for n streamed messages; op (if set) runs in the plugin before message at.
func (h *grpcHandle) StreamN(n int, op string, at int, d time.Duration) (int, error) {
	ctx, cancel := context.WithTimeout(context.Background(), d)
	defer cancel()
	sd := &grpc.StreamDesc{StreamName: "Stream", ServerStreams: true}
	cs, err := h.cc.NewStream(ctx, sd, "/"+h.service+"/Stream")
	if err != nil {
		return 0, err
	}
	args, _ := json.Marshal(Cmd{N: n, S: op, ID: uint32(at)})
	if err := cs.SendMsg(wrapperspb.Bytes(args)); err != nil {
		return 0, err
	}
	if err := cs.CloseSend(); err != nil {
		return 0, err
	}
	got := 0
	for {
		out := new(wrapperspb.BytesValue)
		err := cs.RecvMsg(out)
		if err == io.EOF {
			return got, nil
		}
		if err != nil {
			if ctx.Err() == context.DeadlineExceeded {
				return got, errCallTimeout
			}
			return got, err
		}
		got++
	}
}
func (h *grpcHandle) StubVersion() int { return h.stubVersion }
func (h *grpcHandle) StubKind() string { return h.stubKind }
func (h *grpcHandle) Proto() string    { return "grpc" }
func (h *grpcHandle) Close() error     { return nil }

// ---------------------------------------------------------------------------
// Plugin process main.

func pluginMain(specJSON string) {
	var spec PluginSpec
	if strings.HasPrefix(specJSON, "@") {
		b, err := os.ReadFile(specJSON[1:])
		if err != nil {
			fmt.Fprintf(os.Stderr, "plugin spec file: %v\n", err)
			os.Exit(3)
		}
		os.Remove(specJSON[1:])
		specJSON = string(b)
	}
	if err := json.Unmarshal([]byte(specJSON), &spec); err != nil {
		fmt.Fprintf(os.Stderr, "bad plugin spec: %v\n", err)
		os.Exit(3)
	}
	spec.fill()
	if spec.IgnoreClientCert {
		os.Unsetenv("PLUGIN_CLIENT_CERT")
	}
	if spec.After.Mode == "never" {
		// a plugin that does not go away by itself does not go away on a polite signal either
		signal.Ignore(syscall.SIGTERM, syscall.SIGHUP)
	}
	if spec.StartMarker != "" {
		appendLine(spec.StartMarker, fmt.Sprintf("start %d", os.Getpid()))
	}
	ppid := os.Getppid()
	maxLife := time.Duration(spec.MaxLifeMs) * time.Millisecond
	if maxLife == 0 {
		maxLife = 180 * time.Second
	}
	go func() {
		deadline := time.Now().Add(maxLife)
		for {
			time.Sleep(100 * time.Millisecond)
			if !spec.NoParentWatch && os.Getppid() != ppid {
				os.Exit(7)
			}
			if time.Now().After(deadline) {
				os.Exit(8)
			}
		}
	}()

	cfg := &plugin.ServeConfig{
		HandshakeConfig: plugin.HandshakeConfig{
			ProtocolVersion:  spec.LegacyVersion,
			MagicCookieKey:   spec.CookieKey,
			MagicCookieValue: spec.CookieValue,
		},
	}
	if spec.Legacy != nil {
		cfg.Plugins = buildSet(*spec.Legacy, int(spec.LegacyVersion), "plugin")
	}
	if spec.Versioned != nil {
		cfg.VersionedPlugins = map[int]plugin.PluginSet{}
		for v, s := range spec.Versioned {
			cfg.VersionedPlugins[v] = buildSet(s, v, "plugin")
		}
	}
	if spec.GRPCServer {
		cfg.GRPCServer = plugin.DefaultGRPCServer
	}
	if spec.TLSCert != "" {
		certFile, keyFile := spec.TLSCert, spec.TLSKey
		cfg.TLSProvider = func() (*tls.Config, error) {
			cert, err := tls.LoadX509KeyPair(certFile, keyFile)
			if err != nil {
				return nil, err
			}
			// usable in both roles: brokered connections make the plugin a TLS client too
			pool := x509.NewCertPool()
			if pemBytes, err := os.ReadFile(certFile); err == nil {
				pool.AppendCertsFromPEM(pemBytes)
			}
			return &tls.Config{Certificates: []tls.Certificate{cert}, RootCAs: pool, ServerName: "localhost", MinVersion: tls.VersionTLS12}, nil
		}
	}
	if len(spec.PreAttach) > 0 {
		origOut := os.Stdout
		go func() {
			defer close(preAttachDone)
			for os.Stdout == origOut {
				time.Sleep(200 * time.Microsecond)
			}
			time.Sleep(2 * time.Millisecond) // both variables are swapped together
			for _, w := range spec.PreAttach {
				f := os.Stdout
				if w.Stream == "err" {
					f = os.Stderr
				}
				f.Write(w.Data)
			}
		}()
	}
	plugin.Serve(cfg)

	switch spec.After.Mode {
	case "sleep_marker":
		time.Sleep(time.Duration(spec.After.DelayMs) * time.Millisecond)
		if spec.After.Marker != "" {
			appendLine(spec.After.Marker, "cleanup done")
		}
	case "never":
		for {
			time.Sleep(time.Hour)
		}
	}
	os.Exit(0)
}

func appendLine(path, line string) {
	f, err := os.OpenFile(path, os.O_APPEND|os.O_CREATE|os.O_WRONLY, 0o644)
	if err != nil {
		return
	}
	f.WriteString(line + "\n")
	f.Close()
}

// ---------------------------------------------------------------------------
// Static TLS material shared by host and plugin (generated once per process).

var staticTLSOnce sync.Once
var staticTLS struct {
	certFile, keyFile string
	pool              *x509.CertPool
	err               error
}

func staticTLSFiles() (certFile, keyFile string, pool *x509.CertPool) {
	staticTLSOnce.Do(func() {
		certPEM, keyPEM, err := genCertPEM("localhost")
		if err != nil {
			staticTLS.err = err
			return
		}
		d := scratchDir()
		staticTLS.certFile = d + "/static-cert.pem"
		staticTLS.keyFile = d + "/static-key.pem"
		os.WriteFile(staticTLS.certFile, certPEM, 0o600)
		os.WriteFile(staticTLS.keyFile, keyPEM, 0o600)
		staticTLS.pool = x509.NewCertPool()
		staticTLS.pool.AppendCertsFromPEM(certPEM)
	})
	if staticTLS.err != nil {
		panic(staticTLS.err)
	}
	return staticTLS.certFile, staticTLS.keyFile, staticTLS.pool
}

func hostStaticTLS() *tls.Config {
	certFile, keyFile, pool := staticTLSFiles()
	cfg := &tls.Config{RootCAs: pool, ServerName: "localhost", MinVersion: tls.VersionTLS12}
	// usable in both roles: for brokered callbacks the host is the TLS server
	if cert, err := tls.LoadX509KeyPair(certFile, keyFile); err == nil {
		cfg.Certificates = []tls.Certificate{cert}
	}
	return cfg
}

// dialUnix is a tiny helper used by several oracles.
func dialAddr(network, addr string, d time.Duration) (net.Conn, error) {
	return net.DialTimeout(network, addr, d)
}

func isTimeoutErr(err error) bool {
	return err != nil && (errors.Is(err, errCallTimeout) || strings.Contains(err.Error(), "did not return in time"))
}
