package props

import (
	"fmt"
	"os"
	"os/exec"
	"path/filepath"
	"strings"
	"sync/atomic"
	"time"

	hclog "github.com/hashicorp/go-hclog"
	plugin "github.com/hashicorp/go-plugin"
	"github.com/hashicorp/go-plugin/runner"
	"pgregory.net/rapid"
)

// C05 — a failed start never leaves a plugin process behind.

type c05Case struct {
	Launch string `json:"launch"` // cmd | runner | script
	Cause  string `json:"cause"`  // badline | badline_more | silence | partial | exit_before_output | close_stdout | exit_after_line
	Cfg    c01Cfg `json:"cfg"`
	Line   []byte `json:"line"`
	ExitMs int    `json:"exit_ms"` // for exit_* causes: delay before exiting
}

var c05Seq int64

func c05Gen(t *rapid.T) any {
	c := &c05Case{}
	c.Launch = []string{"cmd", "runner", "script"}[weighted(t, "launch", 35, 35, 30)]
	c.Cfg = c01GenCfg(t)
	if c.Cfg.TLS == "auto" && !pct(t, "keepauto", 30) {
		c.Cfg.TLS = ""
	}
	c.Cause = []string{"badline", "silence", "partial", "exit_before_output", "close_stdout", "exit_after_line", "badline_more"}[weighted(t, "cause", 50, 6, 6, 10, 8, 10, 10)]
	c.Line = c01GenLine(t, c.Cfg)
	c.ExitMs = []int{0, 1, 5, 30}[uniform(t, "exitms", 4)]
	return c
}

func c05Steps(c *c05Case) []FakeStep {
	switch c.Cause {
	case "silence":
		return []FakeStep{{Op: "forever"}}
	case "partial":
		return []FakeStep{{Op: "out", Data: c.Line}, {Op: "forever"}}
	case "exit_before_output":
		return []FakeStep{{Op: "sleep", Ms: c.ExitMs}, {Op: "exit", Code: 3}}
	case "close_stdout":
		return []FakeStep{{Op: "sleep", Ms: c.ExitMs}, {Op: "close_out"}, {Op: "forever"}}
	case "exit_after_line":
		return []FakeStep{{Op: "out", Data: append(append([]byte{}, c.Line...), '\n')}, {Op: "sleep", Ms: c.ExitMs}, {Op: "exit", Code: 0}}
	case "badline_more":
		// the first line is followed by more output (usage text, a stack trace); the plugin stays alive
		more := []byte("second line of output\nthird line\n" + strings.Repeat("x", 5000) + "\nlast\n")
		return []FakeStep{{Op: "out", Data: append(append(append([]byte{}, c.Line...), '\n'), more...)}, {Op: "forever"}}
	default: // badline: a complete line, plugin stays alive
		return []FakeStep{{Op: "out", Data: append(append([]byte{}, c.Line...), '\n')}, {Op: "forever"}}
	}
}

func c05Run(ci any) (out Outcome) {
	c := ci.(*c05Case)
	out.label("launch:%s", c.Launch)
	out.label("cause:%s", c.Cause)
	spec := FakeSpec{Steps: c05Steps(c)}
	startTimeout := 3 * time.Second
	if c.Cause == "silence" || c.Cause == "partial" || c.Cause == "close_stdout" {
		startTimeout = 250 * time.Millisecond
	}
	caseDir := filepath.Join(scratchDir(), fmt.Sprintf("c05-%d", atomic.AddInt64(&c05Seq, 1)))
	os.MkdirAll(caseDir, 0o755)
	defer os.RemoveAll(caseDir)

	var sr *scriptRunner
	var er *execRunner
	var cmd *exec.Cmd
	var rf func(hclog.Logger, *exec.Cmd, string) (runner.Runner, error)
	switch c.Launch {
	case "script":
		sr = newScriptRunner(spec)
		rf = func(hclog.Logger, *exec.Cmd, string) (runner.Runner, error) { return sr, nil }
	case "runner":
		rf = func(_ hclog.Logger, hc *exec.Cmd, _ string) (runner.Runner, error) {
			fc := fakeCmd(spec)
			fc.Env = append(os.Environ(), hc.Env...)
			r, err := newExecRunner(fc)
			er = r
			return r, err
		}
	case "cmd":
		cmd = fakeCmd(spec)
	}
	cc := c.Cfg.clientConfig(rf, startTimeout)
	if cmd != nil {
		cc.Cmd = cmd
	}
	cc.UnixSocketConfig = &plugin.UnixSocketConfig{TempDir: caseDir}
	cl := plugin.NewClient(cc)
	cleaned := false
	defer func() {
		if !cleaned {
			if sr != nil {
				sr.Kill(nil)
			}
			if er != nil {
				er.Kill(nil)
			}
			if cmd != nil && cmd.Process != nil {
				cmd.Process.Kill()
			}
			killBounded(cl, 15*time.Second)
		}
	}()

	var serr error
	var panicked any
	if _, ok := within(startTimeout+8*time.Second, func() {
		defer func() { panicked = recover() }()
		_, serr = cl.Start()
	}); !ok {
		out.Slow = fmt.Sprintf("Start did not return within StartTimeout(%v)+8s", startTimeout)
		return
	}
	if panicked != nil {
		// C01 reports panics; here only the process matters, fall through with an error
		serr = fmt.Errorf("panic: %v", panicked)
	}
	pid := 0
	switch {
	case er != nil:
		pid = er.pid
	case cmd != nil && cmd.Process != nil:
		pid = cmd.Process.Pid
	}
	launched := pid != 0 || (sr != nil && atomic.LoadInt32(&sr.starts) > 0)
	if serr == nil {
		out.label("start:ok")
		return // nothing to check: the start did not fail
	}
	out.label("start:error")
	if !launched {
		out.label("not-launched")
		return
	}
	out.NonTrivial = true

	// the launched process is terminated by the time the error is returned, or shortly after
	if sr != nil {
		if !waitFor(3*time.Second, func() bool { return atomic.LoadInt32(&sr.kills) > 0 }) {
			out.violate("Start failed (%v) but the runner was never killed (cause %s, line %q)", firstLine(serr), c.Cause, clip(c.Line))
			return
		}
	} else if !waitPidDead(pid, 3*time.Second) {
		st := procState(pid)
		// confirm it is our live process and not a pid reuse: it must still be running now
		out.violate("Start failed (%v) but plugin process %d is still alive (state %s) 3 s later (launch %s, cause %s, line %q)", firstLine(serr), pid, st, c.Launch, c.Cause, clip(c.Line))
		return
	}

	// a later Kill returns promptly ...
	cleaned = true
	if el, ok := killBounded(cl, 10*time.Second); !ok {
		out.Slow = fmt.Sprintf("Kill after a failed Start did not return within %v", el)
		return
	}
	// ... and removes the temporary socket directory created for a custom runner
	if c.Launch != "cmd" {
		ents, _ := os.ReadDir(caseDir)
		for _, e := range ents {
			out.violate("after a failed Start and Kill the runner's temporary directory %s still exists", e.Name())
			return
		}
	}
	if pid != 0 && !waitPidGone(pid, 3*time.Second) {
		out.violate("after Kill the plugin process %d still exists (state %s)", pid, procState(pid))
	}
	return
}

func firstLine(err error) string {
	s := err.Error()
	for i := 0; i < len(s); i++ {
		if s[i] == '\n' {
			return s[:i]
		}
	}
	if len(s) > 200 {
		return s[:200]
	}
	return s
}

var propC05 = register(&Prop{
	ID:  "C05",
	Gen: c05Gen,
	New: func() any { return &c05Case{} },
	Run: c05Run,
	Rule: "rapid draws a launch method (exec.Cmd running a scripted fake plugin process / custom RunnerFunc wrapping such a process / in-process scripted runner), a client configuration and a failure cause " +
		"(a handshake line from C01's grammar with hostile fields, silence until the start timeout, partial line without newline, exit before any output, stdout closed while alive, exit right after the line). " +
		"Oracle (only when Start returned an error after the launch): the pid is dead within 3 s (scripted runner: Kill was called), a later Kill returns within 10 s, the custom runner's plugin-dir* is removed, the pid is reaped. " +
		"Non-trivial: the process was really launched and Start failed.",
	Assumptions: []string{"process liveness is read from /proc/<pid>/stat; a zombie counts as terminated until Kill has returned"},
})
