package props

import (
	"errors"
	"fmt"
	"net"
	"os"
	"os/exec"
	"path/filepath"
	"strings"
	"sync"
	"sync/atomic"
	"time"

	hclog "github.com/hashicorp/go-hclog"
	plugin "github.com/hashicorp/go-plugin"
	"github.com/hashicorp/go-plugin/runner"
	"pgregory.net/rapid"
)

// C19 — a Client launches its plugin at most once and its accessors are idempotent.

type c19Case struct {
	Launch   string     `json:"launch"`    // script | runner | cmd
	FirstOK  bool       `json:"first_ok"`  // the plugin comes up properly
	FailKind string     `json:"fail_kind"` // badline | timeout | exit | starterr (scripted launch: runner.Start itself returns an error)
	Proto    string     `json:"proto"`     // netrpc | grpc (real plugin launches)
	Ops      [][]string `json:"ops"`       // one op list per goroutine (one list = sequential)
}

var c19OpNames = []string{"Start", "Client", "Protocol", "ReattachConfig", "ID", "Exited", "Kill", "NegotiatedVersion"}

func c19Gen(t *rapid.T) any {
	c := &c19Case{}
	c.Launch = []string{"script", "runner", "cmd"}[weighted(t, "launch", 50, 30, 20)]
	c.FirstOK = rapid.Bool().Draw(t, "firstok")
	c.FailKind = oneOf(t, "failkind", []string{"badline", "badline", "exit", "timeout"})
	if c.Launch == "script" && !c.FirstOK && pct(t, "starterr", 30) {
		c.FailKind = "starterr"
	}
	c.Proto = oneOf(t, "proto", []string{"netrpc", "grpc"})
	ng := 1
	if rapid.Bool().Draw(t, "concurrent") {
		ng = 2 + uniform(t, "ngoroutines", 7)
	}
	for g := 0; g < ng; g++ {
		n := 1 + uniform(t, "nops", 8)
		if ng == 1 {
			n = 2 + uniform(t, "nops", 11)
		}
		var ops []string
		for i := 0; i < n; i++ {
			ops = append(ops, c19OpNames[weighted(t, "op", 30, 22, 12, 8, 5, 5, 13, 5)])
		}
		c.Ops = append(c.Ops, ops)
	}
	return c
}

var c19Seq int64

func c19Run(ci any) (out Outcome) {
	c := ci.(*c19Case)
	caseDir := filepath.Join(scratchDir(), fmt.Sprintf("c19-%d", atomic.AddInt64(&c19Seq, 1)))
	os.MkdirAll(caseDir, 0o755)
	defer os.RemoveAll(caseDir)
	marker := filepath.Join(caseDir, "launches")
	out.label("launch:%s", c.Launch)
	out.label("first_ok:%v", c.FirstOK)
	if !c.FirstOK {
		out.label("fail:%s", c.FailKind)
	}
	if len(c.Ops) > 1 {
		out.label("concurrent")
	} else {
		out.label("sequential")
	}

	startTimeout := 5 * time.Second
	if !c.FirstOK && c.FailKind == "timeout" {
		startTimeout = 150 * time.Millisecond
	}
	var launches int32 // runner.Start calls (script / runner launches)
	var mu sync.Mutex
	var scripts []*scriptRunner
	var execs []*execRunner

	failSteps := func() []FakeStep {
		switch c.FailKind {
		case "timeout":
			return []FakeStep{{Op: "marker", Path: marker}, {Op: "forever"}}
		case "exit":
			return []FakeStep{{Op: "marker", Path: marker}, {Op: "exit", Code: 1}}
		}
		return []FakeStep{{Op: "marker", Path: marker}, {Op: "out", Data: []byte("this is not a handshake line\n")}, {Op: "forever"}}
	}
	set := SetSpec{Kind: "dual"}
	pspec := PluginSpec{LegacyVersion: 1, Legacy: &set, GRPCServer: c.Proto == "grpc", StartMarker: marker}
	realCmd := func() *exec.Cmd {
		if c.FirstOK {
			return pluginCmd(pspec)
		}
		return fakeCmd(FakeSpec{Steps: failSteps()})
	}

	cc := &plugin.ClientConfig{
		HandshakeConfig:  plugin.HandshakeConfig{ProtocolVersion: 1, MagicCookieKey: defaultCookieKey, MagicCookieValue: defaultCookieValue},
		Plugins:          buildSet(set, 1, "host"),
		AllowedProtocols: []plugin.Protocol{plugin.ProtocolNetRPC, plugin.ProtocolGRPC},
		StartTimeout:     startTimeout,
		Logger:           nullLogger(),
		UnixSocketConfig: &plugin.UnixSocketConfig{TempDir: caseDir},
	}
	switch c.Launch {
	case "script":
		cc.RunnerFunc = func(hclog.Logger, *exec.Cmd, string) (runner.Runner, error) {
			steps := failSteps()[1:]
			if c.FirstOK {
				steps = []FakeStep{{Op: "out", Data: []byte("1|1|tcp|127.0.0.1:1|netrpc\n")}, {Op: "forever"}}
			}
			sr := newScriptRunner(FakeSpec{Steps: steps})
			if !c.FirstOK && c.FailKind == "starterr" {
				sr.startErr = errors.New("the runner could not start the plugin")
			}
			sr.onStart = func() { atomic.AddInt32(&launches, 1) }
			mu.Lock()
			scripts = append(scripts, sr)
			mu.Unlock()
			return sr, nil
		}
	case "runner":
		cc.RunnerFunc = func(_ hclog.Logger, hc *exec.Cmd, _ string) (runner.Runner, error) {
			rc := realCmd()
			rc.Env = append(os.Environ(), hc.Env...)
			r, err := newExecRunner(rc)
			if err != nil {
				return nil, err
			}
			r.onStart = func() { atomic.AddInt32(&launches, 1) }
			mu.Lock()
			execs = append(execs, r)
			mu.Unlock()
			return r, nil
		}
	case "cmd":
		cc.Cmd = realCmd()
	}
	cl := plugin.NewClient(cc)
	defer func() {
		mu.Lock()
		for _, s := range scripts {
			s.Kill(nil)
		}
		for _, e := range execs {
			e.Kill(nil)
		}
		mu.Unlock()
		if cc.Cmd != nil && cc.Cmd.Process != nil {
			cc.Cmd.Process.Kill()
		}
		killBounded(cl, 20*time.Second)
	}()

	type res struct {
		addrs   []net.Addr
		clients []plugin.ClientProtocol
		panics  []string
	}
	var rmu sync.Mutex
	var all res
	var killedAt int32 // set once any Kill has returned
	var launchesAtKill int32 = -1
	countLaunches := func() int {
		if c.Launch == "cmd" {
			b, _ := os.ReadFile(marker)
			return strings.Count(string(b), "\n")
		}
		return int(atomic.LoadInt32(&launches))
	}
	doOp := func(op string) {
		defer func() {
			if r := recover(); r != nil {
				rmu.Lock()
				all.panics = append(all.panics, fmt.Sprintf("%s panicked: %v", op, r))
				rmu.Unlock()
			}
		}()
		switch op {
		case "Start":
			if a, err := cl.Start(); err == nil {
				rmu.Lock()
				all.addrs = append(all.addrs, a)
				rmu.Unlock()
			}
		case "Client":
			if p, err := cl.Client(); err == nil {
				rmu.Lock()
				all.clients = append(all.clients, p)
				rmu.Unlock()
			}
		case "Protocol":
			cl.Protocol()
		case "ReattachConfig":
			cl.ReattachConfig()
		case "ID":
			cl.ID()
		case "Exited":
			cl.Exited()
		case "NegotiatedVersion":
			cl.NegotiatedVersion()
		case "Kill":
			cl.Kill()
			atomic.StoreInt32(&killedAt, 1)
		}
	}
	var wg sync.WaitGroup
	_, finished := within(60*time.Second, func() {
		for _, ops := range c.Ops {
			wg.Add(1)
			go func(ops []string) {
				defer wg.Done()
				for _, op := range ops {
					doOp(op)
				}
			}(ops)
		}
		wg.Wait()
	})
	if !finished {
		out.Slow = "the generated calls did not all return within 60 s"
		return
	}
	// epilogue: Kill, then every launching accessor once more; nothing may launch after Kill
	if _, ok := killBounded(cl, 20*time.Second); !ok {
		out.Slow = "Kill did not return within 20 s"
		return
	}
	time.Sleep(2 * time.Millisecond)
	launchesAtKill = int32(countLaunches())
	for _, op := range []string{"Start", "Client", "Protocol", "ReattachConfig", "Start"} {
		if _, ok := within(30*time.Second, func() { doOp(op) }); !ok {
			out.Slow = op + " after Kill did not return within 30 s"
			return
		}
	}
	if c.Launch == "cmd" {
		time.Sleep(20 * time.Millisecond) // let a (wrongly) launched process write its marker
	}
	total := countLaunches()

	retryAfterFail := false
	calls := 0
	for _, ops := range c.Ops {
		for _, op := range ops {
			if op == "Start" || op == "Client" || op == "Protocol" {
				calls++
			}
		}
	}
	if !c.FirstOK && calls >= 2 {
		retryAfterFail = true
	}
	out.NonTrivial = retryAfterFail || len(c.Ops) > 1 || strings.Contains(fmt.Sprint(c.Ops), "Kill")
	if retryAfterFail {
		out.label("retry-after-failed-start")
	}

	if len(all.panics) > 0 {
		out.violate("%s (ops %v)", all.panics[0], c.Ops)
		return
	}
	if total > 1 {
		out.violate("the plugin was launched %d times by one Client (launch %s, first start ok=%v/%s, ops %v)", total, c.Launch, c.FirstOK, c.FailKind, c.Ops)
		return
	}
	// "no launch after Kill" is subsumed: a plugin launched before Kill and again after it gives
	// total > 1; a Kill on a never-started client is a no-op and a first launch after it is allowed
	_ = launchesAtKill
	for _, a := range all.addrs {
		if a == nil || a != all.addrs[0] {
			out.violate("successful Start calls returned different addresses: %v vs %v", all.addrs[0], a)
			return
		}
	}
	for _, p := range all.clients {
		if p == nil || p != all.clients[0] {
			out.violate("successful Client calls returned different protocol clients: %p vs %p", all.clients[0], p)
			return
		}
	}
	// the temporary directory of a custom runner is gone after Kill (no orphan from a second launch)
	if _, ok := killBounded(cl, 20*time.Second); !ok {
		out.Slow = "final Kill did not return within 20 s"
		return
	}
	if c.Launch != "cmd" {
		ents, _ := os.ReadDir(caseDir)
		for _, e := range ents {
			if strings.HasPrefix(e.Name(), "plugin-dir") {
				out.violate("a plugin-dir* temporary directory is left behind after Kill: %s (launches %d)", e.Name(), total)
				return
			}
		}
	}
	return
}

var propC19 = register(&Prop{
	ID:  "C19",
	Gen: c19Gen,
	New: func() any { return &c19Case{} },
	Run: c19Run,
	Iso: true,
	Rule: "rapid draws a launch method (in-process scripted RunnerFunc / RunnerFunc wrapping a real process / exec.Cmd), whether the first start succeeds (real plugin over net/rpc or gRPC) or fails " +
		"(bad line, early exit, timeout, runner.Start returning an error), and 1-8 op lists over {Start, Client, Protocol, ReattachConfig, ID, Exited, Kill, NegotiatedVersion} run sequentially (one list) or concurrently (one goroutine per list); " +
		"an epilogue calls Kill and then Start/Client/Protocol/ReattachConfig again. Oracle (model): launches (runner.Start calls or process start markers) <= 1, no launch after Kill, all successful Starts return the identical address and all successful Clients the identical pointer, no panic, no orphaned plugin-dir*. " +
		"Non-trivial: a retry after a failed start, a Kill inside the list, or >= 2 goroutines.",
	Assumptions: []string{"RunnerFunc itself always succeeds; launches are counted at runner.Start"},
})
