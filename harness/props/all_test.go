package props

import "testing"

func TestC13(t *testing.T)        { RunProp(t, propC13) }
func TestC01(t *testing.T)        { RunProp(t, propC01) }
func TestC10(t *testing.T)        { RunProp(t, propC10) }
func TestC05(t *testing.T)        { RunProp(t, propC05) }
func TestC19(t *testing.T)        { RunProp(t, propC19) }
func TestC02(t *testing.T)        { RunProp(t, propC02) }
func TestC16(t *testing.T)        { RunProp(t, propC16) }
func TestC17(t *testing.T)        { RunProp(t, propC17) }
func TestC11(t *testing.T)        { RunProp(t, propC11) }
func TestC14(t *testing.T)        { RunProp(t, propC14) }
func TestC14Enum(t *testing.T)    { RunEnum(t, propC14) }
func TestC15(t *testing.T)        { RunProp(t, propC15) }
func TestC12(t *testing.T)        { RunProp(t, propC12) }
func TestC12Enum(t *testing.T)    { RunEnum(t, propC12) }
func TestC07(t *testing.T)        { RunProp(t, propC07) }
func TestC07Sub(t *testing.T)     { RunProp(t, propC07Sub) }
func TestC08(t *testing.T)        { RunProp(t, propC08) }
func TestC08Sub(t *testing.T)     { RunProp(t, propC08Sub) }
func TestC09RT(t *testing.T)      { RunProp(t, propC09RT) }
func TestC04(t *testing.T)        { RunProp(t, propC04) }
func TestC04Cleanup(t *testing.T) { RunProp(t, propC04Cleanup) }
func TestC03(t *testing.T)        { RunProp(t, propC03) }
func TestC03Enum(t *testing.T)    { RunEnum(t, propC03) }
func TestC18(t *testing.T)        { RunProp(t, propC18) }
func TestC20(t *testing.T)        { RunProp(t, propC20) }
func TestC09Raw(t *testing.T)     { RunProp(t, propC09Raw) }
