package props

import (
	"bytes"
	"fmt"
	"sync"
	"time"

	plugin "github.com/hashicorp/go-plugin"
	"pgregory.net/rapid"
)

// C11 — synced stdout/stderr arrive byte-exact, in order, on the right stream.

type c11Write struct {
	Stream string `json:"s"` // out | err
	Size   int    `json:"n"`
	Seed   int    `json:"seed"`
}

type c11Op struct {
	Kind   string     `json:"kind"` // write (one plugin call doing the writes in order) | par (stdout and stderr writers run concurrently in the plugin) | rpc (unrelated unary call)
	Writes []c11Write `json:"w,omitempty"`
}

type c11Case struct {
	Proto     string     `json:"proto"` // netrpc | grpc | grpcmux
	Ops       []c11Op    `json:"ops"`
	PreAttach []c11Write `json:"pre_attach,omitempty"` // written by the plugin right after Serve swapped stdio, before the host connects (fresh plugin)
}

var c11Sizes = []int{0, 1, 2, 100, 1023, 1024, 1025, 2047, 2048, 2049, 4095, 4096, 4097, 8192, 65536, 70001}

func c11Data(w c11Write) []byte {
	b := make([]byte, w.Size)
	x := uint32(w.Seed)*2654435761 + 12345
	for i := range b {
		x = x*1664525 + 1013904223
		b[i] = byte(x >> 24)
	}
	return b
}

func c11GenWrites(t *rapid.T, n int) []c11Write {
	var ws []c11Write
	for i := 0; i < n; i++ {
		w := c11Write{Stream: oneOf(t, "stream", []string{"out", "err"}), Seed: rapid.IntRange(0, 1<<20).Draw(t, "seed")}
		if pct(t, "rnd", 30) {
			w.Size = rapid.IntRange(0, 5000).Draw(t, "size")
		} else {
			w.Size = oneOf(t, "sizeclass", c11Sizes)
		}
		ws = append(ws, w)
	}
	return ws
}

func c11Gen(t *rapid.T) any {
	c := &c11Case{}
	c.Proto = oneOf(t, "proto", []string{"netrpc", "grpc", "grpcmux"})
	nops := 1 + uniform(t, "nops", 5)
	for i := 0; i < nops; i++ {
		switch weighted(t, "opkind", 55, 25, 20) {
		case 0:
			c.Ops = append(c.Ops, c11Op{Kind: "write", Writes: c11GenWrites(t, 1+uniform(t, "nw", 6))})
		case 1:
			c.Ops = append(c.Ops, c11Op{Kind: "par", Writes: c11GenWrites(t, 2+uniform(t, "nw", 6))})
		case 2:
			c.Ops = append(c.Ops, c11Op{Kind: "rpc"})
		}
	}
	if pct(t, "preattach", 12) {
		c.PreAttach = c11GenWrites(t, 1+uniform(t, "npre", 3))
	}
	return c
}

// warm plugins, one per protocol, reused across cases
type c11Warm struct {
	cl       *plugin.Client
	h        Handle
	out, err *safeBuf
	uses     int
}

var (
	c11Mu    sync.Mutex
	c11Pool  = map[string]*c11Warm{}
	c11Fresh int
)

func c11Start(proto string, pre []c11Write) (*c11Warm, error) {
	w := &c11Warm{out: &safeBuf{}, err: &safeBuf{}}
	set := SetSpec{Kind: "dual"}
	ps := PluginSpec{LegacyVersion: 1, Legacy: &set, GRPCServer: proto != "netrpc"}
	for _, p := range pre {
		ps.PreAttach = append(ps.PreAttach, Write{Stream: p.Stream, Data: c11Data(p)})
	}
	cc := HostCfg{LegacyVersion: 1, Legacy: &set, Allowed: []string{"netrpc", "grpc"}, Mux: proto == "grpcmux"}.clientConfig()
	cc.Cmd = pluginCmd(ps)
	cc.SyncStdout = w.out
	cc.SyncStderr = w.err
	w.cl = plugin.NewClient(cc)
	if _, err := w.cl.Start(); err != nil {
		w.cl.Kill()
		return nil, err
	}
	if len(pre) > 0 {
		// give the plugin time to write before anybody is attached
		time.Sleep(40 * time.Millisecond)
	}
	h, _, err := dispense(w.cl, "p")
	if err != nil {
		w.cl.Kill()
		return nil, err
	}
	w.h = h
	if len(pre) > 0 {
		// the plugin's writes within a stream must be sequential for the expected byte sequence to
		// be defined: wait until its pre-attach writer (possibly blocked on a full pipe until now) is done
		if _, err := h.DoT(Cmd{Op: "prewait", N: 10000}, 15*time.Second); err != nil {
			w.cl.Kill()
			return nil, fmt.Errorf("pre-attach data was not drained after the host attached: %w", err)
		}
	}
	return w, nil
}

func c11Drop(proto string) {
	c11Mu.Lock()
	w := c11Pool[proto]
	delete(c11Pool, proto)
	c11Mu.Unlock()
	if w != nil {
		killBounded(w.cl, 20*time.Second)
	}
}

func c11Run(ci any) (out Outcome) {
	c := ci.(*c11Case)
	out.label("proto:%s", c.Proto)
	var w *c11Warm
	fresh := len(c.PreAttach) > 0
	if fresh {
		out.label("pre-attach")
		var err error
		w, err = c11Start(c.Proto, c.PreAttach)
		if err != nil {
			out.violate("could not start the plugin: %v", err)
			return
		}
		defer killBounded(w.cl, 20*time.Second)
	} else {
		c11Mu.Lock()
		w = c11Pool[c.Proto]
		if w != nil && w.uses >= 200 {
			c11Mu.Unlock()
			c11Drop(c.Proto)
			c11Mu.Lock()
			w = nil
		}
		c11Mu.Unlock()
		if w == nil {
			var err error
			w, err = c11Start(c.Proto, nil)
			if err != nil {
				out.violate("could not start the plugin: %v", err)
				return
			}
			c11Mu.Lock()
			c11Pool[c.Proto] = w
			c11Fresh++
			c11Mu.Unlock()
		}
		w.uses++
	}
	clean := false
	defer func() {
		if !clean && !fresh {
			c11Drop(c.Proto) // never reuse a plugin after a case that did not end cleanly
		}
	}()

	outOff, errOff := w.out.Len(), w.err.Len()
	if fresh {
		outOff, errOff = 0, 0
	}
	var wantOut, wantErr []byte
	for _, p := range c.PreAttach {
		if p.Stream == "out" {
			wantOut = append(wantOut, c11Data(p)...)
		} else {
			wantErr = append(wantErr, c11Data(p)...)
		}
	}
	total, both := 0, map[string]bool{}
	for _, op := range c.Ops {
		switch op.Kind {
		case "rpc":
			if _, err := w.h.DoT(Cmd{Op: "tag"}, 20*time.Second); err != nil {
				out.violate("unary call between writes failed: %v", err)
				return
			}
		case "write", "par":
			var ws []Write
			for _, p := range op.Writes {
				d := c11Data(p)
				ws = append(ws, Write{Stream: p.Stream, Data: d})
				if p.Stream == "out" {
					wantOut = append(wantOut, d...)
				} else {
					wantErr = append(wantErr, d...)
				}
				total += len(d)
				both[p.Stream] = true
			}
			opName := "write"
			if op.Kind == "par" {
				opName = "writepar"
			}
			if _, err := w.h.DoT(Cmd{Op: opName, Writes: ws}, 30*time.Second); err != nil {
				if isTimeoutErr(err) {
					out.Slow = "write call did not return within 30 s"
				} else {
					out.violate("write call failed: %v", err)
				}
				return
			}
		}
	}
	out.NonTrivial = len(wantOut) > 1024 || len(wantErr) > 1024 || (both["out"] && both["err"]) || fresh

	// delivery: exactly these bytes, on the right stream, in order
	check := func(name string, buf *safeBuf, off int, want []byte) (done bool) {
		got := buf.Bytes()[off:]
		n := len(got)
		if n > len(want) {
			out.violate("%s received %d bytes, the plugin wrote %d: extra %q", name, n, len(want), clip(got[len(want):]))
			return true
		}
		if !bytes.Equal(got, want[:n]) {
			i := 0
			for i < n && got[i] == want[i] {
				i++
			}
			out.violate("%s differs from what the plugin wrote at offset %d of %d (got %q, want %q)", name, i, len(want), clip(got[i:min(n, i+40)]), clip(want[i:min(len(want), i+40)]))
			return true
		}
		return n == len(want)
	}
	deadline := time.Now().Add(10 * time.Second)
	for {
		d1 := check("SyncStdout", w.out, outOff, wantOut)
		if out.Violation != "" {
			return
		}
		d2 := check("SyncStderr", w.err, errOff, wantErr)
		if out.Violation != "" {
			return
		}
		if d1 && d2 {
			break
		}
		if time.Now().After(deadline) {
			out.Slow = fmt.Sprintf("after 10 s SyncStdout has %d of %d bytes and SyncStderr %d of %d (prefixes correct): the tail never arrived", w.out.Len()-outOff, len(wantOut), w.err.Len()-errOff, len(wantErr))
			return
		}
		time.Sleep(time.Millisecond)
	}
	// nothing may trickle in afterwards (duplicates)
	if total > 0 && pctHash(total) {
		time.Sleep(20 * time.Millisecond)
		check("SyncStdout", w.out, outOff, wantOut)
		check("SyncStderr", w.err, errOff, wantErr)
		if out.Violation != "" {
			return
		}
	}
	clean = true
	return
}

// pctHash makes ~1 in 8 cases linger for late duplicates, as a function of the case only.
func pctHash(n int) bool { return n%8 == 3 }

var propC11 = register(&Prop{
	ID:  "C11",
	Gen: c11Gen,
	New: func() any { return &c11Case{} },
	Run: c11Run,
	Rule: "rapid draws a protocol (net/rpc, gRPC, gRPC+mux) and 1-5 operations: a plugin call performing 1-6 writes in order on stdout/stderr (sizes from {0,1,2,100,1023,1024,1025,2047..2049,4095..4097,8192,65536,70001} or random <=5000, pseudo-random binary content), " +
		"a plugin call running its stdout writes and stderr writes in two concurrent goroutines, or an unrelated unary RPC; optionally data written by the plugin right after Serve swapped its stdio and before the host connects. Real plugin subprocess (warm, renewed every 200 cases or after any unclean case). " +
		"Oracle: round-trip equality per stream: SyncStdout delta == concatenation of the stdout writes, SyncStderr delta == concatenation of the stderr writes (nothing dropped, duplicated, reordered, crossed). Non-trivial: > 1 KiB on a stream, both streams used, or pre-attach data.",
	Assumptions: []string{"within one stream the plugin's own writes are sequential (also in the concurrent op), so each stream has a defined expected byte sequence"},
})
