package props

import (
	"bufio"
	"bytes"
	"encoding/json"
	"fmt"
	"io"
	"os"
	"os/exec"
	"regexp"
	"runtime/debug"
	"strings"
	"sync"
	"syscall"
	"time"
)

// safeRun executes p.Run and turns a panic raised inside go-plugin (or below
// it) on the calling goroutine into a violation. A panic whose origin is the
// harness itself is re-raised: that is a harness bug, not a finding.
func safeRun(p *Prop, c any) (out Outcome) {
	defer func() {
		if r := recover(); r != nil {
			st := string(debug.Stack())
			if panicOriginIsHarness(st) {
				panic(fmt.Sprintf("harness panic: %v\n%s", r, st))
			}
			out.Violation = fmt.Sprintf("host panicked: %v\n%s", r, trimStack(st))
		}
	}()
	return p.Run(c)
}

var frameRe = regexp.MustCompile(`(?m)^\t(\S+\.go):\d+`)

// panicOriginIsHarness looks at the first non-runtime frame below the panic
// call in a debug.Stack() dump.
func panicOriginIsHarness(stack string) bool {
	idx := strings.Index(stack, "panic(")
	if idx < 0 {
		return true
	}
	rest := stack[idx:]
	for _, m := range frameRe.FindAllStringSubmatch(rest, -1) {
		f := m[1]
		if strings.Contains(f, "/src/runtime/") {
			continue
		}
		return strings.Contains(f, "/verif/harness/")
	}
	return true
}

func trimStack(s string) string {
	if len(s) > 3000 {
		return s[:3000] + "..."
	}
	return s
}

// ---------------------------------------------------------------------------
// Isolated child host.

type isoReq struct {
	Case json.RawMessage `json:"case"`
}

type isoExec struct {
	p     *Prop
	mu    sync.Mutex
	child *isoChild
}

type isoChild struct {
	cmd    *exec.Cmd
	stdin  io.WriteCloser
	resp   *bufio.Reader
	respF  *os.File
	stderr *tailBuffer
	dead   chan struct{}
}

func newIsoExec(p *Prop) *isoExec { return &isoExec{p: p} }

func (e *isoExec) close() {
	e.mu.Lock()
	defer e.mu.Unlock()
	if e.child != nil {
		e.child.kill()
		e.child = nil
	}
}

func (e *isoExec) start(extraEnv []string, replaceEnv bool) (*isoChild, error) {
	cmd := exec.Command(os.Args[0], "-test.run", "^$")
	if replaceEnv {
		cmd.Env = append([]string{}, extraEnv...)
	} else {
		cmd.Env = append(os.Environ(), extraEnv...)
	}
	cmd.Env = append(cmd.Env, "VERIF_ISO="+e.p.Name, "VERIF_SCRATCH="+scratchDir())
	stdin, err := cmd.StdinPipe()
	if err != nil {
		return nil, err
	}
	pr, pw, err := os.Pipe()
	if err != nil {
		return nil, err
	}
	cmd.ExtraFiles = []*os.File{pw}
	tb := &tailBuffer{max: 16 << 10}
	cmd.Stderr = tb
	cmd.Stdout = tb
	cmd.SysProcAttr = &syscall.SysProcAttr{Setpgid: true}
	if err := cmd.Start(); err != nil {
		pr.Close()
		pw.Close()
		return nil, err
	}
	pw.Close()
	ch := &isoChild{cmd: cmd, stdin: stdin, resp: bufio.NewReaderSize(pr, 1<<20), respF: pr, stderr: tb, dead: make(chan struct{})}
	go func() {
		cmd.Wait()
		close(ch.dead)
	}()
	return ch, nil
}

func (c *isoChild) kill() {
	// kill the whole process group: plugins started by the child go with it
	syscall.Kill(-c.cmd.Process.Pid, syscall.SIGKILL)
	c.cmd.Process.Kill()
	<-c.dead
	c.respF.Close()
	c.stdin.Close()
}

type isoResult struct {
	out  Outcome
	err  error
	died bool
}

func (e *isoExec) once(c any, fresh bool) isoResult {
	var ch *isoChild
	var err error
	if fresh || e.child == nil {
		var env []string
		replace := false
		if e.p.IsoEnv != nil {
			env = e.p.IsoEnv(c)
			replace = true
		}
		ch, err = e.start(env, replace)
		if err != nil {
			return isoResult{err: err}
		}
		if !fresh {
			e.child = ch
		}
	} else {
		ch = e.child
	}
	if fresh {
		defer ch.kill()
	}
	line := append(mustJSON(isoReq{Case: mustJSON(c)}), '\n')
	if _, err := ch.stdin.Write(line); err != nil {
		if !fresh {
			ch.kill()
			e.child = nil
		}
		return isoResult{died: true, err: fmt.Errorf("write to isolated host: %v; output tail:\n%s", err, ch.stderr.String())}
	}
	type rd struct {
		b   []byte
		err error
	}
	rc := make(chan rd, 1)
	go func() {
		b, err := ch.resp.ReadBytes('\n')
		rc <- rd{b, err}
	}()
	timeout := e.p.IsoTimeout
	if timeout == 0 {
		timeout = 60 * time.Second
	}
	select {
	case r := <-rc:
		if r.err != nil {
			// child died (EOF on the result pipe)
			select {
			case <-ch.dead:
			case <-time.After(5 * time.Second):
			}
			state := ""
			if ch.cmd.ProcessState != nil {
				state = ch.cmd.ProcessState.String()
			}
			tail := ch.stderr.String()
			if !fresh {
				ch.kill()
				e.child = nil
			}
			return isoResult{died: true, err: fmt.Errorf("isolated host process died (%s) while running the case; output tail:\n%s", state, tail)}
		}
		var out Outcome
		if err := json.Unmarshal(r.b, &out); err != nil {
			return isoResult{err: fmt.Errorf("bad result from isolated host: %v: %q", err, r.b)}
		}
		return isoResult{out: out}
	case <-time.After(timeout):
		// ask for a goroutine dump, then kill
		ch.cmd.Process.Signal(syscall.SIGQUIT)
		select {
		case <-ch.dead:
		case <-time.After(3 * time.Second):
		}
		tail := ch.stderr.String()
		if !fresh {
			ch.kill()
			e.child = nil
		}
		return isoResult{out: Outcome{Slow: fmt.Sprintf("case did not finish within %v in the isolated host; goroutines:\n%s", timeout, tail)}}
	}
}

func (e *isoExec) run(c any) Outcome {
	e.mu.Lock()
	defer e.mu.Unlock()
	fresh := e.p.IsoFresh
	r := e.once(c, fresh)
	if r.died && conclusiveDeath(r.err.Error()) {
		// a race report, panic or fatal error with go-plugin frames is conclusive on its own: such
		// failures are schedule dependent and need not repeat
		return Outcome{Violation: r.err.Error(), NonTrivial: true, Labels: []string{"iso:host-died-conclusive"}}
	}
	if r.died {
		// confirm in a fresh child: a death that does not repeat is not reported
		r2 := e.once(c, true)
		if r2.died {
			return Outcome{Violation: r.err.Error(), NonTrivial: true, Labels: []string{"iso:host-died"}}
		}
		if r2.err != nil {
			panic("harness: isolated executor: " + r2.err.Error())
		}
		r2.out.Labels = append(r2.out.Labels, "iso:death-not-reproduced")
		return r2.out
	}
	if r.err != nil {
		panic("harness: isolated executor: " + r.err.Error())
	}
	return r.out
}

// isoChildMain is the loop of the isolated host process.
func isoChildMain(name string) {
	p, ok := registry[name]
	if !ok {
		fmt.Fprintf(os.Stderr, "unknown prop %q\n", name)
		os.Exit(3)
	}
	out := os.NewFile(3, "result")
	in := bufio.NewReaderSize(os.Stdin, 1<<20)
	for {
		line, err := in.ReadBytes('\n')
		if len(bytes.TrimSpace(line)) > 0 {
			var req isoReq
			if jerr := json.Unmarshal(line, &req); jerr != nil {
				fmt.Fprintf(os.Stderr, "bad request: %v\n", jerr)
				os.Exit(3)
			}
			c := p.New()
			if jerr := json.Unmarshal(req.Case, c); jerr != nil {
				fmt.Fprintf(os.Stderr, "bad case: %v\n", jerr)
				os.Exit(3)
			}
			o := safeRun(p, c)
			b := append(mustJSON(o), '\n')
			out.Write(b)
		}
		if err != nil {
			os.Exit(0)
		}
	}
}

// tailBuffer keeps the last max bytes written to it.
type tailBuffer struct {
	mu  sync.Mutex
	buf []byte
	max int
}

func (t *tailBuffer) Write(p []byte) (int, error) {
	t.mu.Lock()
	defer t.mu.Unlock()
	t.buf = append(t.buf, p...)
	if len(t.buf) > 2*t.max {
		t.buf = append([]byte{}, t.buf[len(t.buf)-t.max:]...)
	}
	return len(p), nil
}

func (t *tailBuffer) String() string {
	t.mu.Lock()
	defer t.mu.Unlock()
	b := t.buf
	if len(b) > t.max {
		b = b[len(b)-t.max:]
	}
	return string(b)
}

// conclusiveDeath: the dead host's output shows a data race, panic or runtime fatal error whose
// stacks run through go-plugin's sources (built from /repo).
func conclusiveDeath(msg string) bool {
	if !strings.Contains(msg, "/repo/") && !strings.Contains(msg, "hashicorp/go-plugin.") {
		return false
	}
	return strings.Contains(msg, "DATA RACE") || strings.Contains(msg, "panic:") || strings.Contains(msg, "fatal error:")
}
