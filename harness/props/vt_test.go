//go:build go1.25

package props

import (
	"testing"

	"github.com/hashicorp/go-plugin/verifhook"
)

func TestC06VT(t *testing.T) {
	verifhook.Set(vtHook)
	runInBubble(t, propC06VT)
}

func TestC09VT(t *testing.T) {
	verifhook.Set(vtHook)
	runInBubble(t, propC09VT)
}
