package props

import (
	"fmt"
	"os"
	"os/exec"
	"path/filepath"
	"sync"
	"sync/atomic"
	"syscall"
	"time"

	hclog "github.com/hashicorp/go-hclog"
	plugin "github.com/hashicorp/go-plugin"
	"github.com/hashicorp/go-plugin/runner"
	"pgregory.net/rapid"
)

// C04 — Kill always ends the plugin process in bounded time, gracefully if possible.

type c04Scn struct {
	Proto     string `json:"proto"`     // netrpc | grpc | grpcmux
	Launch    string `json:"launch"`    // cmd | runner | reattach
	Behaviour string `json:"behaviour"` // exit | cleanup (exits after DelayMs, writes a marker) | slow (needs 4 s) | never | frozen | crashed | badhandshake | busy
	DelayMs   int    `json:"delay_ms"`
	Pattern   string `json:"pattern"` // single | repeated | concurrent
	N         int    `json:"n"`
}

type c04Case struct {
	Scns []c04Scn `json:"scns"` // independent scenarios run concurrently so their waits overlap
}

func c04GenScn(t *rapid.T, allowFrozenNetRPC bool) c04Scn {
	s := c04Scn{}
	s.Proto = oneOf(t, "proto", []string{"netrpc", "grpc", "grpcmux"})
	s.Launch = []string{"cmd", "runner", "reattach"}[weighted(t, "launch", 45, 30, 25)]
	if s.Proto == "grpcmux" && s.Launch == "reattach" {
		s.Launch = "cmd" // multiplexing does not support reattach
	}
	s.Behaviour = []string{"exit", "cleanup", "slow", "never", "frozen", "crashed", "badhandshake", "busy"}[weighted(t, "behaviour", 14, 28, 12, 14, 8, 10, 7, 7)]
	if s.Behaviour == "frozen" && s.Proto == "netrpc" && !allowFrozenNetRPC {
		s.Proto = "grpc" // a frozen net/rpc plugin takes ~40 s (yamux keep-alive); thorough tier only
	}
	if s.Behaviour == "badhandshake" && s.Launch == "reattach" {
		s.Launch = "cmd"
	}
	s.DelayMs = oneOf(t, "delay", []int{0, 1, 5, 50, 300, 1000})
	s.Pattern = []string{"single", "repeated", "concurrent"}[weighted(t, "pattern", 40, 25, 35)]
	s.N = 2 + uniform(t, "n", 5)
	return s
}

func c04Gen(t *rapid.T) any {
	c := &c04Case{}
	thorough := os.Getenv("VERIF_TIER") == "thorough"
	n := 4 + uniform(t, "nscn", 9)
	for i := 0; i < n; i++ {
		c.Scns = append(c.Scns, c04GenScn(t, thorough && i == 0))
	}
	return c
}

var c04Seq int64

type c04Result struct {
	violation string
	slow      string
}

// c04Start launches (or reattaches to) the plugin of a scenario and brings it into the scenario's state.
func c04RunScn(s c04Scn) (res c04Result) {
	caseDir := filepath.Join(scratchDir(), fmt.Sprintf("c04-%d", atomic.AddInt64(&c04Seq, 1)))
	os.MkdirAll(caseDir, 0o755)
	defer os.RemoveAll(caseDir)
	marker := filepath.Join(caseDir, "cleanup-marker")
	desc := fmt.Sprintf("%+v", s)
	set := SetSpec{Kind: "dual"}
	ps := PluginSpec{LegacyVersion: 1, Legacy: &set, GRPCServer: s.Proto != "netrpc"}
	switch s.Behaviour {
	case "cleanup":
		ps.After = AfterSpec{Mode: "sleep_marker", DelayMs: s.DelayMs, Marker: marker}
	case "slow":
		ps.After = AfterSpec{Mode: "sleep_marker", DelayMs: 4000, Marker: marker}
	case "never":
		ps.After = AfterSpec{Mode: "never"}
	}
	mk := func() *exec.Cmd {
		if s.Behaviour == "badhandshake" {
			return fakeCmd(FakeSpec{Steps: []FakeStep{{Op: "out", Data: []byte("this is not a handshake\n")}, {Op: "forever"}}})
		}
		return pluginCmd(ps)
	}
	hc := HostCfg{LegacyVersion: 1, Legacy: &set, Allowed: []string{"netrpc", "grpc"}, Mux: s.Proto == "grpcmux"}
	var pid int
	var target *plugin.Client // the client whose Kill is judged
	var first *plugin.Client
	var er *execRunner
	cc := hc.clientConfig()
	cc.StartTimeout = 10 * time.Second
	cc.UnixSocketConfig = &plugin.UnixSocketConfig{TempDir: caseDir}
	switch s.Launch {
	case "runner":
		cc.RunnerFunc = func(_ hclog.Logger, h *exec.Cmd, _ string) (runner.Runner, error) {
			pc := mk()
			pc.Env = append(os.Environ(), h.Env...)
			r, err := newExecRunner(pc)
			er = r
			return r, err
		}
	default:
		cc.Cmd = mk()
	}
	cl := plugin.NewClient(cc)
	target = cl
	defer func() {
		// whatever happened, leave nothing behind
		if pid != 0 {
			syscall.Kill(pid, syscall.SIGCONT)
			syscall.Kill(pid, syscall.SIGKILL)
		}
		go cl.Kill()
		if first != nil {
			go first.Kill()
		}
	}()
	var h Handle
	var derr error
	if _, ok := within(30*time.Second, func() { h, _, derr = dispense(cl, "p") }); !ok {
		res.slow = "start+dispense did not return within 30 s: " + desc
		return
	}
	if er != nil {
		pid = er.pid
	} else if cc.Cmd != nil && cc.Cmd.Process != nil {
		pid = cc.Cmd.Process.Pid
	}
	if s.Behaviour == "badhandshake" {
		if derr == nil {
			res.violation = "a plugin printing garbage started successfully"
			return
		}
	} else if derr != nil {
		res.violation = fmt.Sprintf("could not start the plugin for scenario %s: %v", desc, firstLine(derr))
		return
	}
	if s.Launch == "reattach" {
		first = cl
		rc := cl.ReattachConfig()
		c2 := hc.clientConfig()
		c2.Reattach = rc
		target = plugin.NewClient(c2)
		if _, _, err := dispense(target, "p"); err != nil {
			res.violation = fmt.Sprintf("reattach failed for scenario %s: %v", desc, firstLine(err))
			return
		}
		defer func() { go target.Kill() }()
	}
	// bring the plugin into the scenario's state
	switch s.Behaviour {
	case "frozen":
		syscall.Kill(pid, syscall.SIGSTOP)
		waitFor(2*time.Second, func() bool { return procState(pid) == "T" })
	case "crashed":
		syscall.Kill(pid, syscall.SIGKILL)
		waitPidDead(pid, 3*time.Second)
	case "busy":
		go h.DoT(Cmd{Op: "sleep", N: 1500}, 10*time.Second) // a call is in flight when Kill arrives
		time.Sleep(5 * time.Millisecond)
	}
	bound := 10 * time.Second
	switch s.Behaviour {
	case "slow", "never", "busy":
		bound = 12 * time.Second // 2 s grace + 10 s
	case "frozen":
		bound = 75 * time.Second
	}
	// the Kill pattern
	var elapsed time.Duration
	var finished bool
	var panicMsg atomic.Value
	// Every Kill that returns must find the process gone (for a reattached client: at least dead),
	// also one that overlapped another Kill still in progress.
	var earlyReturn atomic.Value
	kill := func() {
		defer func() {
			if r := recover(); r != nil {
				panicMsg.Store(fmt.Sprint(r))
			}
		}()
		start := time.Now()
		target.Kill()
		if pid != 0 {
			st := procState(pid)
			if st != "" && (st != "Z" || s.Launch != "reattach") {
				// give the reaper of a reattached plugin a moment; anything else is conclusive
				if s.Launch == "reattach" && waitPidDead(pid, 3*time.Second) {
					return
				}
				earlyReturn.Store(fmt.Sprintf("a Kill call returned after %v while plugin process %d was still present (state %s)", time.Since(start), pid, st))
			}
		}
	}
	switch s.Pattern {
	case "single":
		elapsed, finished = within(bound, kill)
	case "repeated":
		elapsed, finished = within(bound, func() {
			for i := 0; i < s.N; i++ {
				kill()
			}
		})
	case "concurrent":
		elapsed, finished = within(bound, func() {
			var wg sync.WaitGroup
			for i := 0; i < s.N; i++ {
				wg.Add(1)
				go func() { defer wg.Done(); kill() }()
			}
			wg.Wait()
		})
	}
	if m := panicMsg.Load(); m != nil {
		res.violation = fmt.Sprintf("Kill panicked (%s): %v", desc, m)
		return
	}
	if m := earlyReturn.Load(); m != nil {
		res.violation = fmt.Sprintf("%v; scenario %s", m, desc)
		return
	}
	if !finished {
		res.slow = fmt.Sprintf("Kill did not return within %v (elapsed %v) for scenario %s", bound, elapsed, desc)
		return
	}
	// after Kill returned: the process has exited and been reaped, the client says so
	reapWait := 200 * time.Millisecond
	if s.Launch == "reattach" {
		reapWait = 3 * time.Second // the process is reaped by the client that launched it
	}
	if pid != 0 && !waitPidGone(pid, reapWait) {
		st := procState(pid)
		if st == "Z" && s.Launch != "reattach" {
			res.violation = fmt.Sprintf("Kill returned after %v but plugin process %d has not been reaped (zombie); scenario %s", elapsed, pid, desc)
		} else if st != "Z" {
			res.violation = fmt.Sprintf("Kill returned after %v but plugin process %d is still running (state %s); scenario %s", elapsed, pid, st, desc)
		}
		if res.violation != "" {
			return
		}
	}
	if !target.Exited() {
		if !waitFor(1500*time.Millisecond, target.Exited) {
			res.violation = fmt.Sprintf("Kill returned but Exited() is still false 1.5 s later; scenario %s", desc)
			return
		}
		if s.Launch != "reattach" {
			res.violation = fmt.Sprintf("Kill returned but Exited() was still false; scenario %s", desc)
			return
		}
	}
	// a plugin that exits on its own shortly after the request finishes its cleanup (single / sequential Kill)
	if s.Behaviour == "cleanup" && s.Pattern != "concurrent" {
		if _, err := os.Stat(marker); err != nil {
			res.violation = fmt.Sprintf("the plugin needed %d ms of cleanup after the shutdown request but was force-killed before finishing (no cleanup marker; Kill took %v); scenario %s", s.DelayMs, elapsed, desc)
			return
		}
	}
	// ... and is not force-killed: it exited by itself (the repository's own tests assert the same through Client.killed())
	if (s.Behaviour == "exit" || s.Behaviour == "cleanup") && s.Pattern != "concurrent" && s.Launch != "reattach" {
		var ps *os.ProcessState
		if er != nil {
			ps = er.cmd.ProcessState
		} else if cc.Cmd != nil {
			ps = cc.Cmd.ProcessState
		}
		if ps != nil {
			if ws, ok := ps.Sys().(syscall.WaitStatus); ok && ws.Signaled() {
				res.violation = fmt.Sprintf("a cooperative plugin (exits %d ms after the shutdown request) was force-killed (%s) although it was exiting on its own (Kill took %v); scenario %s", map[bool]int{true: s.DelayMs, false: 0}[s.Behaviour == "cleanup"], ps.String(), elapsed, desc)
				return
			}
		}
	}
	// one that does not is force-killed after the grace period (so its 4 s cleanup never completes)
	if s.Behaviour == "slow" {
		if _, err := os.Stat(marker); err == nil {
			res.violation = fmt.Sprintf("a plugin needing 4 s was not force-killed after the grace period (marker written; Kill took %v); scenario %s", elapsed, desc)
			return
		}
		if elapsed < 1500*time.Millisecond && s.Launch != "reattach" && s.Pattern != "concurrent" {
			res.violation = fmt.Sprintf("a plugin still cleaning up was force-killed after %v, before the grace period; scenario %s", elapsed, desc)
			return
		}
	}
	return
}

func c04Run(ci any) (out Outcome) {
	c := ci.(*c04Case)
	results := make([]c04Result, len(c.Scns))
	var wg sync.WaitGroup
	for i, s := range c.Scns {
		out.label("behaviour:%s", s.Behaviour)
		out.label("pattern:%s", s.Pattern)
		out.label("launch:%s", s.Launch)
		out.label("proto:%s", s.Proto)
		if s.Behaviour != "exit" || s.Pattern != "single" {
			out.NonTrivial = true
		}
		wg.Add(1)
		go func(i int, s c04Scn) {
			defer wg.Done()
			results[i] = c04RunScn(s)
		}(i, s)
	}
	if _, ok := within(150*time.Second, wg.Wait); !ok {
		out.Slow = "the batch of scenarios did not finish within 150 s"
		return
	}
	for _, r := range results {
		if r.violation != "" {
			out.violate("%s", r.violation)
			return
		}
	}
	for _, r := range results {
		if r.slow != "" {
			out.Slow = r.slow
			return
		}
	}
	return
}

var propC04 = register(&Prop{
	ID: "C04", Gen: c04Gen, New: func() any { return &c04Case{} }, Run: c04Run,
	Rule: "a case is a batch of 4-12 scenarios run concurrently (their waits overlap): protocol (net/rpc, gRPC, gRPC+mux) x launch (exec.Cmd, custom runner, reattach) x plugin behaviour on shutdown (exits at once; needs 0-1000 ms of cleanup and then writes a marker; needs 4 s; never exits; frozen with SIGSTOP; already crashed; failed handshake; busy in a call) x Kill pattern (single, repeated n, n concurrent goroutines). " +
		"Oracle after Kill returned: pid gone and reaped, Exited() true, Kill latency within 10 s (cooperative/dead/never started), 2 s grace + 10 s (ignores the request), 75 s (frozen); a plugin needing <= 1 s has written its cleanup marker (not force-killed) under single/sequential Kill; one needing 4 s has not (force-killed, and not before ~2 s); no panic. " +
		"Non-trivial: any behaviour other than 'exits at once', or a pattern other than single. Frozen net/rpc plugins (40 s: yamux keep-alive) only in the thorough tier.",
	Assumptions: []string{"with several concurrent Kill calls only 'no panic, no hang, dead and reaped' is demanded (a second caller may cut the grace period short)", "for reattached clients the process is reaped by the client that launched it (3 s allowed)"},
})

// ---------------------------------------------------------------------------
// CleanupClients over managed clients in mixed states (fresh host process per case: global list, call once).

type c04CleanupCase struct {
	Clients []c04Scn `json:"clients"`
}

func c04CleanupGen(t *rapid.T) any {
	c := &c04CleanupCase{}
	n := 1 + uniform(t, "nclients", 6)
	for i := 0; i < n; i++ {
		s := c04GenScn(t, false)
		if s.Launch == "runner" {
			s.Launch = "cmd"
		}
		if s.Behaviour == "frozen" && !pct(t, "keepfrozen", 30) {
			// a frozen net/rpc plugin costs ~40 s (yamux keep-alive): kept for a share of the cases only
			s.Behaviour = "never"
		}
		s.Pattern = "single"
		c.Clients = append(c.Clients, s)
	}
	return c
}

func c04CleanupRun(ci any) (out Outcome) {
	c := ci.(*c04CleanupCase)
	out.NonTrivial = len(c.Clients) >= 2
	type st struct {
		cl     *plugin.Client
		pid    int
		marker string
		s      c04Scn
	}
	var all []*st
	set := SetSpec{Kind: "dual"}
	for i, s := range c.Clients {
		out.label("behaviour:%s", s.Behaviour)
		marker := filepath.Join(scratchDir(), fmt.Sprintf("c04c-%d-%d", os.Getpid(), i))
		ps := PluginSpec{LegacyVersion: 1, Legacy: &set, GRPCServer: s.Proto != "netrpc"}
		switch s.Behaviour {
		case "cleanup":
			ps.After = AfterSpec{Mode: "sleep_marker", DelayMs: s.DelayMs, Marker: marker}
		case "slow":
			ps.After = AfterSpec{Mode: "sleep_marker", DelayMs: 4000, Marker: marker}
		case "never":
			ps.After = AfterSpec{Mode: "never"}
		}
		cc := HostCfg{LegacyVersion: 1, Legacy: &set, Allowed: []string{"netrpc", "grpc"}, Mux: s.Proto == "grpcmux"}.clientConfig()
		cc.Managed = s.Launch != "reattach"
		if s.Behaviour == "badhandshake" {
			cc.Cmd = fakeCmd(FakeSpec{Steps: []FakeStep{{Op: "out", Data: []byte("garbage\n")}, {Op: "forever"}}})
		} else {
			cc.Cmd = pluginCmd(ps)
		}
		cl := plugin.NewClient(cc)
		x := &st{cl: cl, marker: marker, s: s}
		all = append(all, x)
		h, _, err := dispense(cl, "p")
		if cc.Cmd.Process != nil {
			x.pid = cc.Cmd.Process.Pid
		}
		if s.Launch == "reattach" && err == nil {
			// the managed client is one that reattached to a plugin some other (unmanaged) client started
			out.label("managed-reattached-client")
			c2 := HostCfg{LegacyVersion: 1, Legacy: &set, Allowed: []string{"netrpc", "grpc"}}.clientConfig()
			c2.Managed = true
			c2.Reattach = cl.ReattachConfig()
			first := cl
			defer func() { go first.Kill() }()
			cl = plugin.NewClient(c2)
			x.cl = cl
			h, _, err = dispense(cl, "p")
		}
		if s.Behaviour != "badhandshake" && err != nil {
			out.violate("could not start managed client %d (%+v): %v", i, s, firstLine(err))
			return
		}
		switch s.Behaviour {
		case "crashed":
			syscall.Kill(x.pid, syscall.SIGKILL)
			waitPidDead(x.pid, 3*time.Second)
		case "busy":
			go h.DoT(Cmd{Op: "sleep", N: 1500}, 10*time.Second)
		case "frozen":
			syscall.Kill(x.pid, syscall.SIGSTOP)
		}
	}
	bound := 20 * time.Second
	for _, x := range all {
		if x.s.Behaviour == "frozen" {
			bound = 75 * time.Second // net/rpc: yamux keep-alive 30 s + 10 s write timeout, as for a single Kill
			out.label("frozen-managed-client")
		}
	}
	defer func() {
		for _, x := range all {
			if x.pid != 0 {
				syscall.Kill(x.pid, syscall.SIGKILL)
			}
		}
	}()
	if el, ok := within(bound, plugin.CleanupClients); !ok {
		out.Slow = fmt.Sprintf("CleanupClients over %d managed clients did not return within %v (%v)", len(all), bound, el)
		return
	}
	if atomic.LoadUint32(&plugin.Killed) != 1 {
		out.violate("plugin.Killed is not set after CleanupClients")
		return
	}
	for i, x := range all {
		if x.pid != 0 && !waitPidGone(x.pid, 200*time.Millisecond) {
			out.violate("after CleanupClients managed client %d (%+v): plugin process %d still exists (state %s)", i, x.s, x.pid, procState(x.pid))
			return
		}
		if x.pid != 0 && !x.cl.Exited() {
			out.violate("after CleanupClients managed client %d (%+v) does not report Exited()", i, x.s)
			return
		}
		if x.s.Behaviour == "cleanup" {
			if _, err := os.Stat(x.marker); err != nil {
				out.violate("CleanupClients force-killed managed client %d which needed only %d ms of cleanup (no marker)", i, x.s.DelayMs)
				return
			}
		}
		os.Remove(x.marker)
	}
	return
}

var propC04Cleanup = register(&Prop{
	ID: "C04", Name: "C04Cleanup", Gen: c04CleanupGen, New: func() any { return &c04CleanupCase{} }, Run: c04CleanupRun,
	IsoFresh: true, IsoTimeout: 120 * time.Second,
	Rule: "CleanupClients: a fresh host process per case (the managed list is global and CleanupClients is documented as call-once) holds 1-6 managed clients in mixed states (healthy, needs cleanup time, needs 4 s, never exits, frozen with SIGSTOP, crashed, failed handshake, busy; all protocols); one CleanupClients call. " +
		"Oracle: it returns within 20 s (75 s with a frozen client), plugin.Killed is set, every launched process is gone and reaped, every client reports Exited(), cooperative plugins wrote their cleanup marker. Non-trivial: >= 2 managed clients.",
})
