package props

import (
	"fmt"
	"os"
	"os/exec"
	"path/filepath"
	"runtime"
	"strings"
	"sync/atomic"
	"time"

	hclog "github.com/hashicorp/go-hclog"
	plugin "github.com/hashicorp/go-plugin"
	"github.com/hashicorp/go-plugin/runner"
	"google.golang.org/grpc"
	"pgregory.net/rapid"
)

// C18 — graceful shutdown leaves no sockets, temp directories or goroutines behind.

type c18Case struct {
	Proto  string   `json:"proto"`  // netrpc | grpc | grpcmux
	TLS    string   `json:"tls"`    // "" | auto | static
	Launch string   `json:"launch"` // cmd | runner
	Ops    []string `json:"ops"`    // dispense | call | host_accept | plugin_accept | stdio | blob
	// StopMask: which of the brokered servers (in order of creation, per side) the caller stops itself
	// before Kill; the others are still serving when the client is killed
	StopMask int `json:"stop_mask"`
	// Sibling: a second client, built from a copy of the configuration that shares the same
	// *UnixSocketConfig, is started while the first is alive; it must survive the first one's Kill,
	// and after both Kills nothing may remain
	Sibling bool `json:"sibling,omitempty"`
}

func c18Gen(t *rapid.T) any {
	c := &c18Case{}
	c.Proto = oneOf(t, "proto", []string{"netrpc", "grpc", "grpcmux"})
	c.TLS = []string{"", "auto", "static"}[weighted(t, "tls", 50, 30, 20)]
	c.Launch = oneOf(t, "launch", []string{"cmd", "runner"})
	n := uniform(t, "nops", 7)
	for i := 0; i < n; i++ {
		c.Ops = append(c.Ops, []string{"dispense", "call", "host_accept", "plugin_accept", "stdio", "blob"}[weighted(t, "op", 15, 15, 25, 25, 12, 8)])
	}
	c.StopMask = uniform(t, "stopmask", 64)
	if pct(t, "stopall", 25) {
		c.StopMask = 63
	}
	c.Sibling = pct(t, "sibling", 20)
	return c
}

// leakStacks returns goroutines that belong to go-plugin, yamux or the gRPC transport.
func leakStacks() []string {
	buf := make([]byte, 8<<20)
	n := runtime.Stack(buf, true)
	var out []string
	for _, g := range strings.Split(string(buf[:n]), "\n\n") {
		if strings.Contains(g, "props.leakStacks") {
			continue
		}
		if strings.Contains(g, "github.com/hashicorp/go-plugin.") || strings.Contains(g, "github.com/hashicorp/go-plugin/internal/") ||
			strings.Contains(g, "github.com/hashicorp/yamux.") || strings.Contains(g, "google.golang.org/grpc/internal/transport.") || strings.Contains(g, "google.golang.org/grpc.(*Server)") {
			out = append(out, g)
		}
	}
	return out
}

func listAll(dir string) []string {
	var out []string
	filepath.Walk(dir, func(p string, info os.FileInfo, err error) error {
		if err == nil && p != dir {
			out = append(out, strings.TrimPrefix(p, dir+"/"))
		}
		return nil
	})
	return out
}

var c18Seq int64

func c18Run(ci any) (out Outcome) {
	c := ci.(*c18Case)
	out.label("proto:%s", c.Proto)
	out.label("tls:%s", c.TLS)
	out.label("launch:%s", c.Launch)
	base := filepath.Join(scratchDir(), fmt.Sprintf("c18-%d", atomic.AddInt64(&c18Seq, 1)))
	plugDir, hostDir := filepath.Join(base, "p"), filepath.Join(base, "h")
	os.MkdirAll(plugDir, 0o755)
	os.MkdirAll(hostDir, 0o755)
	defer os.RemoveAll(base)
	baseline := len(leakStacks())
	sharedBefore := listSockets(os.TempDir())

	set := SetSpec{Kind: "dual"}
	ps := PluginSpec{LegacyVersion: 1, Legacy: &set, GRPCServer: c.Proto != "netrpc"}
	if c.TLS == "static" {
		ps.TLSCert, ps.TLSKey, _ = staticTLSFiles()
	}
	cc := HostCfg{LegacyVersion: 1, Legacy: &set, Allowed: []string{"netrpc", "grpc"}, TLS: c.TLS, Mux: c.Proto == "grpcmux", SkipHostEnv: true}.clientConfig()
	cc.UnixSocketConfig = &plugin.UnixSocketConfig{TempDir: hostDir}
	if c.Launch == "cmd" {
		cc.Cmd = pluginCmd(ps)
		cc.Cmd.Env = []string{"TMPDIR=" + plugDir}
	} else {
		cc.RunnerFunc = func(_ hclog.Logger, hc *exec.Cmd, _ string) (runner.Runner, error) {
			pc := pluginCmd(ps)
			pc.Env = append([]string{"TMPDIR=" + plugDir}, hc.Env...)
			return newExecRunner(pc)
		}
	}
	plugDirB := filepath.Join(base, "pb")
	os.MkdirAll(plugDirB, 0o755)
	ccB := *cc // same *UnixSocketConfig, same TLS settings
	if c.Launch == "cmd" {
		ccB.Cmd = pluginCmd(ps)
		ccB.Cmd.Env = []string{"TMPDIR=" + plugDirB}
	} else {
		ccB.RunnerFunc = func(_ hclog.Logger, hc *exec.Cmd, _ string) (runner.Runner, error) {
			pc := pluginCmd(ps)
			pc.Env = append([]string{"TMPDIR=" + plugDirB}, hc.Env...)
			return newExecRunner(pc)
		}
	}
	cl := plugin.NewClient(cc)
	killed := false
	defer func() {
		if !killed {
			killBounded(cl, 20*time.Second)
		}
	}()
	var h Handle
	var err error
	if !out.bounded("start+dispense", 30*time.Second, func() { h, _, err = dispense(cl, "p") }) {
		return
	}
	if err != nil {
		out.violate("could not start the plugin: %v (%+v)", firstLine(err), *c)
		return
	}
	brokered, plugAccepts := 0, 0
	var hostEnd *localEnd
	if gh, ok := h.(*grpcHandle); ok {
		hostEnd = &localEnd{br: gh.broker, name: "host"}
	}
	for i, op := range c.Ops {
		var oerr error
		ok := out.bounded("operation "+op, 40*time.Second, func() {
			switch op {
			case "dispense":
				_, _, oerr = dispense(cl, "p")
			case "call":
				_, oerr = h.DoT(Cmd{Op: "tag"}, 20*time.Second)
			case "blob":
				_, oerr = h.DoT(Cmd{Op: "blob", N: 300000}, 20*time.Second)
			case "stdio":
				_, oerr = h.DoT(Cmd{Op: "write", Writes: []Write{{Stream: "out", Data: []byte("out\n")}, {Stream: "err", Data: make([]byte, 5000)}}}, 20*time.Second)
			case "host_accept":
				brokered++
				id := freshBrokerID()
				if hostEnd != nil {
					hostEnd.accept(id, 0)
				} else {
					c14HostAccept(h, id)
				}
				var rr Reply
				rr, oerr = h.DoT(Cmd{Op: "broker_dial", ID: id}, 30*time.Second)
				if oerr == nil && !strings.Contains(string(rr.B), fmt.Sprintf(`"broker":%d`, id)) {
					oerr = fmt.Errorf("wrong server answered: %s", rr.B)
				}
			case "plugin_accept":
				brokered++
				id := freshBrokerID()
				if _, oerr = h.DoT(Cmd{Op: "broker_accept", ID: id}, 20*time.Second); oerr == nil {
					if hostEnd != nil {
						_, oerr = hostEnd.dial(id, 0)
					} else {
						_, oerr = c14HostDial(h, id)
					}
					if oerr == nil && hostEnd != nil && c.StopMask&(1<<uint(plugAccepts%6)) != 0 {
						// the plugin author stops this brokered server once the exchange is over
						if v, ok := hostEnd.conns.Load(id); ok {
							v.(*grpc.ClientConn).Close()
						}
						_, oerr = h.DoT(Cmd{Op: "broker_stop", ID: id}, 20*time.Second)
					}
					plugAccepts++
				}
			}
		})
		if !ok {
			return
		}
		if oerr != nil {
			out.violate("operation %d (%s) failed before the shutdown: %v (%+v)", i, op, firstLine(oerr), *c)
			return
		}
	}
	out.NonTrivial = brokered > 0 || c.Proto == "grpcmux"
	if brokered > 0 {
		out.label("brokered")
	}
	// the user's own part of a clean shutdown: close the connections and servers they created
	if hostEnd != nil {
		hostEnd.cleanupPartial(c.StopMask)
	}
	var clB *plugin.Client
	var hB Handle
	if c.Sibling {
		out.label("sibling-client")
		clB = plugin.NewClient(&ccB)
		defer killBounded(clB, 20*time.Second)
		var errB error
		if !out.bounded("start of the sibling client", 30*time.Second, func() { hB, _, errB = dispense(clB, "p") }) {
			return
		}
		if errB != nil {
			out.violate("could not start a second client from a copy of the configuration: %v (%+v)", firstLine(errB), *c)
			return
		}
	}
	killed = true
	if el, ok := killBounded(cl, 20*time.Second); !ok {
		out.Slow = fmt.Sprintf("Kill did not return within %v", el)
		return
	}
	if c.Sibling {
		var errB error
		if !out.bounded("call on the sibling client", 30*time.Second, func() {
			if _, errB = hB.DoT(Cmd{Op: "tag"}, 20*time.Second); errB == nil {
				// a new connection needs the sibling's socket to be still there
				_, _, errB = dispense(clB, "p")
			}
		}) {
			return
		}
		if errB != nil {
			out.violate("killing one client broke its sibling (same *UnixSocketConfig, own plugin process): %v (%+v)", firstLine(errB), *c)
			return
		}
		if el, ok := killBounded(clB, 20*time.Second); !ok {
			out.Slow = fmt.Sprintf("Kill of the sibling client did not return within %v", el)
			return
		}
		if !waitForD(2*time.Second, 20*time.Millisecond, func() bool { return len(listAll(plugDirB)) == 0 }) {
			out.violate("after a graceful Kill the sibling plugin's socket directory still contains %v", listAll(plugDirB))
			return
		}
	}
	// files: nothing go-plugin created may remain on either side
	var left []string
	if !waitForD(2*time.Second, 20*time.Millisecond, func() bool { left = listAll(plugDir); return len(left) == 0 }) {
		out.violate("after a graceful Kill the plugin's socket directory still contains %v (%s, tls %q, launch %s, ops %v)", left, c.Proto, c.TLS, c.Launch, c.Ops)
		return
	}
	if !waitForD(2*time.Second, 20*time.Millisecond, func() bool { left = listAll(hostDir); return len(left) == 0 }) {
		out.violate("after a graceful Kill the host's temporary directory still contains %v (%s, launch %s, ops %v)", left, c.Proto, c.Launch, c.Ops)
		return
	}
	if !waitForD(2*time.Second, 20*time.Millisecond, func() bool { left = newSockets(sharedBefore, listSockets(os.TempDir())); return len(left) == 0 }) {
		out.violate("after a graceful Kill host-side brokered sockets remain in the temp dir: %v (%s, launch %s, ops %v)", left, c.Proto, c.Launch, c.Ops)
		return
	}
	// goroutines: back to the baseline a few seconds later (two consecutive samples)
	var stacks []string
	okCount := 0
	if !waitForD(9*time.Second, 150*time.Millisecond, func() bool {
		stacks = leakStacks()
		if len(stacks) <= baseline {
			okCount++
		} else {
			okCount = 0
		}
		return okCount >= 2
	}) {
		out.violate("%d goroutine(s) of go-plugin / yamux / grpc transport remain 9 s after a graceful Kill (baseline %d; %s, tls %q, launch %s, ops %v); one of them:\n%s", len(stacks)-baseline, baseline, c.Proto, c.TLS, c.Launch, c.Ops, trimStack(stacks[len(stacks)-1]))
	}
	return
}

var propC18 = register(&Prop{
	ID: "C18", Gen: c18Gen, New: func() any { return &c18Case{} }, Run: c18Run,
	Rule: "rapid draws protocol (net/rpc, gRPC, gRPC+mux), TLS mode (none, AutoMTLS, static), launch method (exec.Cmd, custom runner) and a history of 0-6 operations over {dispense, call, brokered connection accepted by the host and dialled by the plugin, brokered connection accepted by the plugin and dialled by the host, synced stdio traffic, large response}, then closes its own brokered connections and calls Kill; in a fifth of the cases a sibling client (copy of the configuration, same *UnixSocketConfig, own process) is alive across that Kill, must keep working and is killed afterwards. " +
		"Both sides get private directories (plugin TMPDIR, host UnixSocketConfig.TempDir; host-side brokered sockets are found by diffing the process temp dir). Oracle: after the graceful exit the plugin's directory, the host's directory and the temp-dir diff are empty (no socket file, no plugin-dir*), and within 9 s the number of goroutines inside go-plugin / yamux / grpc transport is back to the pre-case baseline on two consecutive samples. Non-trivial: >= 1 brokered connection, or multiplexing on.",
	Assumptions: []string{"the caller closes the brokered client connections it dialled; brokered servers are stopped by the caller or left running, as drawn (stop_mask)"},
})
