// Package props holds the generated checks for the go-plugin properties.
//
// Every property is a Prop: a rapid generator producing a plain-JSON case, a
// Run function executing the case against the real go-plugin code and judging
// it with an explicit oracle, and bookkeeping (non-trivial rule, distinct key,
// labels) that ends up in the evidence file.
package props

import (
	"encoding/json"
	"fmt"
	"hash/fnv"
	"os"
	"path/filepath"
	"sort"
	"strconv"
	"sync"
	"sync/atomic"
	"testing"
	"time"

	"pgregory.net/rapid"
)

// Outcome is the verdict of one case.
type Outcome struct {
	// Violation is non-empty when the oracle saw the property broken. Safety
	// observations only: conclusive at first sight.
	Violation string `json:"violation,omitempty"`
	// Slow is non-empty when only a latency bound was exceeded. It is not a
	// violation until the driver has re-run the case alone and seen it again.
	Slow string `json:"slow,omitempty"`
	// NonTrivial says whether the case counts as non-trivial by the prop's rule.
	NonTrivial bool `json:"nontrivial,omitempty"`
	// Key is the identity used for distinct counting ("" = the case JSON).
	Key string `json:"key,omitempty"`
	// Labels classify the case (generator distribution, reached branches).
	Labels []string `json:"labels,omitempty"`
	// Excluded names the known finding whose class this case belongs to; such
	// a case is counted but not executed.
	Excluded string `json:"excluded,omitempty"`
	// Note is free text kept with samples.
	Note string `json:"note,omitempty"`
}

func (o *Outcome) label(format string, a ...any) {
	o.Labels = append(o.Labels, fmt.Sprintf(format, a...))
}

func (o *Outcome) violate(format string, a ...any) {
	if o.Violation == "" {
		o.Violation = fmt.Sprintf(format, a...)
	}
}

// Prop describes one executable property check.
type Prop struct {
	ID   string // property id, e.g. C13
	Name string // test name (several props may serve one property)
	// Gen draws a case. Every random choice must be a rapid draw.
	Gen func(t *rapid.T) any
	// New returns an empty case for JSON decoding (replay / isolated child).
	New func() any
	// Run executes and judges one case.
	Run func(c any) Outcome
	// Rule is the human-readable generation + non-triviality rule.
	Rule        string
	Assumptions []string
	// Iso: execute every case in an isolated child host process.
	Iso bool
	// IsoFresh: a fresh child per case (process-global state).
	IsoFresh bool
	// IsoTimeout bounds one case inside the child.
	IsoTimeout time.Duration
	// IsoEnv, when set, gives the environment additions for a fresh child.
	IsoEnv func(c any) []string
	// DefaultChecks is the rapid case count when the driver gives none.
	DefaultChecks int
	// Enum, when set, enumerates a finite case space completely: it returns the size and the i-th case.
	Enum func() (int, func(i int) any)
}

var registry = map[string]*Prop{}

func register(p *Prop) *Prop {
	if p.Name == "" {
		p.Name = p.ID
	}
	registry[p.Name] = p
	return p
}

// Stats is what a test process reports to the driver.
type Stats struct {
	Property    string            `json:"property"`
	Test        string            `json:"test"`
	Shard       int               `json:"shard"`
	Seed        uint64            `json:"seed"`
	Evaluations int               `json:"evaluations"`
	NonTrivial  int               `json:"nontrivial"`
	Keys        []string          `json:"keys"`
	Labels      map[string]int    `json:"labels"`
	Samples     []json.RawMessage `json:"samples"`
	Violations  []ViolationRec    `json:"violations"`
	Slow        []ViolationRec    `json:"slow"`
	Excluded    map[string]int    `json:"excluded"`
	WallS       float64           `json:"wall_s"`
	Completed   bool              `json:"completed"`
	Rule        string            `json:"rule"`
	Assumptions []string          `json:"assumptions"`
	Extra       map[string]any    `json:"extra,omitempty"`

	mu      sync.Mutex
	keyset  map[string]struct{}
	frozen  bool
	first   *ViolationRec
	last    *ViolationRec
	start   time.Time
	outPath string
}

type ViolationRec struct {
	Message string          `json:"message"`
	Case    json.RawMessage `json:"case"`
	Shrunk  bool            `json:"shrunk,omitempty"`
}

func hashKey(s string) string {
	h := fnv.New64a()
	h.Write([]byte(s))
	return strconv.FormatUint(h.Sum64(), 16)
}

func mustJSON(v any) json.RawMessage {
	b, err := json.Marshal(v)
	if err != nil {
		panic(err)
	}
	return b
}

// progress is bumped for every recorded case (read by watchdogs); liveStats is the Stats of the
// running property in this process.
var progress int64
var liveStats atomic.Pointer[Stats]

func (s *Stats) record(c any, out Outcome) {
	atomic.AddInt64(&progress, 1)
	s.mu.Lock()
	defer s.mu.Unlock()
	if s.frozen {
		return
	}
	s.Evaluations++
	for _, l := range out.Labels {
		s.Labels[l]++
	}
	if out.Excluded != "" {
		s.Excluded[out.Excluded]++
		return
	}
	raw := mustJSON(c)
	if out.NonTrivial {
		s.NonTrivial++
		k := out.Key
		if k == "" {
			k = string(raw)
		}
		h := hashKey(k)
		if _, ok := s.keyset[h]; !ok {
			s.keyset[h] = struct{}{}
			// keep a spread of samples: the first few distinct non-trivial cases
			// and then every 2^k-th one.
			n := len(s.keyset)
			if n <= 4 || (n&(n-1)) == 0 && len(s.Samples) < 14 {
				s.Samples = append(s.Samples, sampleJSON(raw, out))
			}
		}
	}
	if out.Slow != "" && len(s.Slow) < 8 {
		s.Slow = append(s.Slow, ViolationRec{Message: out.Slow, Case: raw})
	}
}

func sampleJSON(raw json.RawMessage, out Outcome) json.RawMessage {
	if len(raw) > 2000 {
		// keep evidence files readable: long cases are abbreviated
		raw = mustJSON(map[string]any{"abbreviated_case_prefix": string(raw[:1500]), "case_bytes": len(raw)})
	}
	return mustJSON(map[string]any{"case": raw, "labels": out.Labels, "note": out.Note})
}

func (s *Stats) write() {
	s.mu.Lock()
	defer s.mu.Unlock()
	s.WallS = time.Since(s.start).Seconds()
	s.Keys = s.Keys[:0]
	for k := range s.keyset {
		s.Keys = append(s.Keys, k)
	}
	sort.Strings(s.Keys)
	if s.outPath == "" {
		return
	}
	b, _ := json.Marshal(s)
	tmp := s.outPath + ".tmp"
	if err := os.WriteFile(tmp, b, 0o644); err == nil {
		os.Rename(tmp, s.outPath)
	}
}

func envInt(name string, def int) int {
	if v := os.Getenv(name); v != "" {
		if n, err := strconv.Atoi(v); err == nil {
			return n
		}
	}
	return def
}

func outDir() string { return os.Getenv("VERIF_OUT") }

// scratchDir is a private directory for this test process (sockets, markers).
var scratchOnce sync.Once
var scratchPath string

func scratchDir() string {
	scratchOnce.Do(func() {
		base := os.Getenv("VERIF_SCRATCH")
		if base == "" {
			base = os.TempDir()
		}
		d, err := os.MkdirTemp(base, "s")
		if err != nil {
			panic(err)
		}
		scratchPath = d
	})
	return scratchPath
}

// RunProp is the body of every property test.
func RunProp(t *testing.T, p *Prop) { runPropTB(t, nil, p) }

// runPropTB: with tb == nil rapid runs in a subtest of t; otherwise rapid.Check is called
// directly on tb (needed inside a synctest bubble, where subtests are not allowed and
// (*testing.T).Deadline may not be called).
func runPropTB(t *testing.T, tb rapid.TB, p *Prop) {
	shard := envInt("VERIF_SHARD", 0)
	st := &Stats{
		Property: p.ID, Test: p.Name, Shard: shard,
		Labels: map[string]int{}, Excluded: map[string]int{},
		keyset: map[string]struct{}{}, start: time.Now(),
		Rule: p.Rule, Assumptions: p.Assumptions,
	}
	if d := outDir(); d != "" {
		st.outPath = filepath.Join(d, fmt.Sprintf("%s.%d.stats.json", p.Name, shard))
	}
	liveStats.Store(st)
	exec := p.executor()
	defer exec.close()

	if replay := os.Getenv("VERIF_REPLAY"); replay != "" {
		b, err := os.ReadFile(replay)
		if err != nil {
			t.Fatalf("replay: %v", err)
		}
		var rec struct {
			Case json.RawMessage `json:"case"`
		}
		c := p.New()
		if json.Unmarshal(b, &rec) == nil && len(rec.Case) > 0 {
			b = rec.Case
		}
		if err := json.Unmarshal(b, c); err != nil {
			t.Fatalf("replay: %v", err)
		}
		out := exec.run(c)
		st.record(c, out)
		if out.Violation != "" {
			st.Violations = append(st.Violations, ViolationRec{Message: out.Violation, Case: mustJSON(c)})
		}
		st.Completed = true
		st.write()
		if out.Violation != "" {
			t.Fatalf("REPLAY VIOLATION property=%s: %s", p.ID, out.Violation)
		}
		if out.Slow != "" {
			t.Logf("REPLAY SLOW property=%s: %s", p.ID, out.Slow)
		}
		return
	}

	defer st.write()
	// saved regression cases first (shard 0 only): plain Run, no rapid
	if dir := os.Getenv("VERIF_CORPUS"); dir != "" && shard == 0 {
		files, _ := filepath.Glob(filepath.Join(dir, p.Name, "*.json"))
		sort.Strings(files)
		for _, f := range files {
			b, err := os.ReadFile(f)
			if err != nil {
				continue
			}
			var rec struct {
				Case json.RawMessage `json:"case"`
			}
			c := p.New()
			if json.Unmarshal(b, &rec) != nil || len(rec.Case) == 0 || json.Unmarshal(rec.Case, c) != nil {
				t.Fatalf("corpus file %s is not a case", f)
			}
			out := exec.run(c)
			out.Labels = append(out.Labels, "corpus")
			st.record(c, out)
			if out.Violation != "" {
				st.Violations = append(st.Violations, ViolationRec{Message: "regression case " + filepath.Base(f) + ": " + out.Violation, Case: mustJSON(c)})
				st.Completed = true
				t.Fatalf("VIOLATION property=%s (corpus %s): %s", p.ID, f, out.Violation)
			}
		}
	}
	curPath := ""
	if d := outDir(); d != "" {
		curPath = filepath.Join(d, fmt.Sprintf("%s.%d.current.json", p.Name, shard))
	}
	lastFlush := time.Now()
	var firstFail time.Time
	shrinkBudget := time.Duration(envInt("VERIF_SHRINK_BUDGET_S", 40)) * time.Second
	propFn := func(rt *rapid.T) {
		c := p.Gen(rt)
		raw := mustJSON(c)
		st.mu.Lock()
		tooSlow := len(st.Slow) >= 3
		overBudget := st.first != nil && time.Since(firstFail) > shrinkBudget
		st.mu.Unlock()
		if overBudget {
			// rapid checks its shrink deadline rarely; when single cases are slow the harness
			// ends minimisation itself by letting every further candidate pass
			return
		}
		if tooSlow {
			// Latency bounds were exceeded several times already: the candidates go to the
			// driver for confirmation; generating more slow cases only burns the budget.
			st.mu.Lock()
			st.Labels["skipped:after-3-slow-cases"]++
			st.mu.Unlock()
			return
		}
		if curPath != "" {
			os.WriteFile(curPath, raw, 0o644)
		}
		out := exec.run(c)
		st.record(c, out)
		if time.Since(lastFlush) > 5*time.Second {
			lastFlush = time.Now()
			st.write()
		}
		if out.Violation != "" {
			st.mu.Lock()
			st.frozen = true
			rec := &ViolationRec{Message: out.Violation, Case: raw}
			if st.first == nil {
				st.first = rec
				firstFail = time.Now()
			}
			st.last = rec
			st.mu.Unlock()
			rt.Fatalf("VIOLATION property=%s: %s", p.ID, out.Violation)
		}
	}
	finalize := func(ok bool) {
		if curPath != "" {
			os.Remove(curPath)
		}
		st.mu.Lock()
		if st.last != nil {
			l := *st.last
			l.Shrunk = true
			st.Violations = append(st.Violations, l)
			if string(st.first.Case) != string(l.Case) {
				st.Violations = append(st.Violations, *st.first)
			}
		}
		st.Completed = ok || st.last != nil
		st.mu.Unlock()
	}
	if tb != nil {
		finished := false
		func() {
			// rapid ends a failed check with FailNow (runtime.Goexit): finalize in a defer
			defer func() { finalize(finished) }()
			rapid.Check(tb, propFn)
			finished = true
		}()
		return
	}
	ok := t.Run("rapid", func(t *testing.T) { rapid.Check(t, propFn) })
	finalize(ok)
}

// executor abstracts in-process versus isolated execution.
type executor interface {
	run(c any) Outcome
	close()
}

type inproc struct{ p *Prop }

func (e inproc) run(c any) Outcome { return safeRun(e.p, c) }
func (e inproc) close()            {}

func (p *Prop) executor() executor {
	if (p.Iso || p.IsoFresh) && os.Getenv("VERIF_ISO") == "" && os.Getenv("VERIF_NOISO") == "" {
		return newIsoExec(p)
	}
	return inproc{p}
}

// elapsed helpers -----------------------------------------------------------

// within runs f and reports whether it finished inside d. f keeps running in
// its goroutine when it does not (the caller reports that as Slow / hang).
func within(d time.Duration, f func()) (time.Duration, bool) {
	done := make(chan struct{})
	start := time.Now()
	go func() {
		defer close(done)
		f()
	}()
	select {
	case <-done:
		return time.Since(start), true
	case <-time.After(d):
		return time.Since(start), false
	}
}

// RunEnum executes every case of p's finite space that belongs to this shard
// (i mod VERIF_NSHARDS == VERIF_SHARD). Violations do not stop the enumeration.
func RunEnum(t *testing.T, p *Prop) {
	shard, nshards := envInt("VERIF_SHARD", 0), envInt("VERIF_NSHARDS", 1)
	st := &Stats{
		Property: p.ID, Test: p.Name + "Enum", Shard: shard,
		Labels: map[string]int{}, Excluded: map[string]int{},
		keyset: map[string]struct{}{}, start: time.Now(),
		Rule: p.Rule, Assumptions: p.Assumptions, Extra: map[string]any{},
	}
	if d := outDir(); d != "" {
		st.outPath = filepath.Join(d, fmt.Sprintf("%sEnum.%d.stats.json", p.Name, shard))
	}
	defer st.write()
	exec := p.executor()
	defer exec.close()
	n, at := p.Enum()
	curPath := ""
	if d := outDir(); d != "" {
		curPath = filepath.Join(d, fmt.Sprintf("%sEnum.%d.current.json", p.Name, shard))
	}
	done := 0
	for i := shard; i < n; i += nshards {
		c := at(i)
		if curPath != "" {
			os.WriteFile(curPath, mustJSON(c), 0o644)
		}
		out := exec.run(c)
		st.record(c, out)
		done++
		if out.Violation != "" && len(st.Violations) < 5 {
			st.Violations = append(st.Violations, ViolationRec{Message: out.Violation, Case: mustJSON(c)})
		}
		st.mu.Lock()
		stop := len(st.Slow) >= 3
		st.mu.Unlock()
		if stop {
			break
		}
	}
	if curPath != "" {
		os.Remove(curPath)
	}
	st.Extra["space"] = n
	st.Extra["enumerated_in_this_shard"] = done
	st.Extra["exhaustive"] = done == (n-shard+nshards-1)/nshards
	st.Completed = true
	if len(st.Violations) > 0 {
		t.Errorf("VIOLATION property=%s: %s", p.ID, st.Violations[0].Message)
	}
}
