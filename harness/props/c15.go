package props

import (
	"context"
	"errors"
	"fmt"
	"time"

	plugin "github.com/hashicorp/go-plugin"
	"pgregory.net/rapid"
)

// C15 — reattach reaches the same live plugin; test mode never kills the server.

type c15Op struct {
	Op    string `json:"op"` // start | starttest | reattach | set | get | kill | reattach_dead | cancel
	Proto string `json:"proto,omitempty"`
	Inst  int    `json:"inst,omitempty"`   // index into the instances created so far (mod len)
	Cl    int    `json:"client,omitempty"` // index into that instance's live clients (mod len)
	// start: the plugin ignores the shutdown request and polite signals (it has to be force-killed)
	Stubborn bool   `json:"stubborn,omitempty"`
	Key      string `json:"key,omitempty"`
	Val      string `json:"val,omitempty"`
}

type c15Case struct {
	Ops []c15Op `json:"ops"`
}

func c15Gen(t *rapid.T) any {
	c := &c15Case{}
	first := "start"
	if pct(t, "testfirst", 30) {
		first = "starttest"
	}
	c.Ops = append(c.Ops, c15Op{Op: first, Proto: oneOf(t, "proto", []string{"netrpc", "grpc"}), Stubborn: first == "start" && pct(t, "stubborn", 30)})
	n := 2 + uniform(t, "nops", 9)
	for i := 0; i < n; i++ {
		op := c15Op{Inst: uniform(t, "inst", 4), Cl: uniform(t, "cl", 4)}
		switch weighted(t, "op", 6, 6, 30, 18, 18, 12, 7, 3) {
		case 0:
			op.Op, op.Proto = "start", oneOf(t, "proto", []string{"netrpc", "grpc"})
			op.Stubborn = pct(t, "stubborn", 40)
		case 1:
			op.Op, op.Proto = "starttest", oneOf(t, "proto", []string{"netrpc", "grpc"})
		case 2:
			op.Op = "reattach"
			if rapid.Bool().Draw(t, "chain") {
				op.Val = "chain" // use the ReattachConfig() of an existing client instead of the original one
			}
		case 3:
			op.Op, op.Key, op.Val = "set", oneOf(t, "key", []string{"a", "b", "c"}), rapid.StringMatching(`[a-z0-9]{0,6}`).Draw(t, "val")
		case 4:
			op.Op, op.Key = "get", oneOf(t, "key", []string{"a", "b", "c"})
		case 5:
			op.Op = "kill"
		case 6:
			op.Op = "reattach_dead"
		case 7:
			op.Op = "cancel"
		}
		c.Ops = append(c.Ops, op)
	}
	return c
}

type c15Client struct {
	cl         *plugin.Client
	h          Handle
	reattached bool
}

type c15Inst struct {
	id      int
	proto   string
	test    bool
	alive   bool
	kv      map[string]string
	rc      *plugin.ReattachConfig
	pid     int
	clients []*c15Client
	// test mode
	cancel  context.CancelFunc
	closeCh chan struct{}
}

var c15Counter int

func c15Run(ci any) (out Outcome) {
	c := ci.(*c15Case)
	var insts []*c15Inst
	defer func() {
		for _, in := range insts {
			for _, k := range in.clients {
				killBounded(k.cl, 20*time.Second)
			}
			if in.cancel != nil {
				in.cancel()
			}
		}
	}()
	set := SetSpec{Kind: "dual"}
	hostCfg := func() *plugin.ClientConfig {
		return HostCfg{LegacyVersion: 1, Legacy: &set, Allowed: []string{"netrpc", "grpc"}}.clientConfig()
	}
	reattachCount := map[int]int{}
	sawDead, sawTest, chained := false, false, false

	attach := func(in *c15Inst, from *plugin.ReattachConfig) (*c15Client, error) {
		cc := hostCfg()
		if from == nil {
			from = in.rc
		}
		rc := *from
		cc.Reattach = &rc
		cl := plugin.NewClient(cc)
		h, _, err := dispense(cl, "p")
		if err != nil {
			killBounded(cl, 20*time.Second)
			return nil, err
		}
		return &c15Client{cl: cl, h: h, reattached: true}, nil
	}

	for step, op := range c.Ops {
		pick := func() *c15Inst {
			if len(insts) == 0 {
				return nil
			}
			return insts[op.Inst%len(insts)]
		}
		switch op.Op {
		case "start":
			if len(insts) >= 4 {
				continue
			}
			cc := hostCfg()
			pspec := PluginSpec{LegacyVersion: 1, Legacy: &set, GRPCServer: op.Proto == "grpc"}
			if op.Stubborn {
				pspec.After = AfterSpec{Mode: "never"}
				out.label("stubborn-plugin")
			}
			cc.Cmd = pluginCmd(pspec)
			cl := plugin.NewClient(cc)
			h, _, err := dispense(cl, "p")
			if err != nil {
				killBounded(cl, 20*time.Second)
				out.violate("step %d: could not start a %s plugin: %v", step, op.Proto, err)
				return
			}
			c15Counter++
			in := &c15Inst{id: c15Counter, proto: op.Proto, alive: true, kv: map[string]string{}, rc: cl.ReattachConfig(), pid: cc.Cmd.Process.Pid}
			if in.rc == nil {
				out.violate("step %d: ReattachConfig() is nil for a running plugin", step)
				return
			}
			in.clients = append(in.clients, &c15Client{cl: cl, h: h})
			insts = append(insts, in)
		case "starttest":
			if len(insts) >= 4 {
				continue
			}
			sawTest = true
			ctx, cancel := context.WithCancel(context.Background())
			rch := make(chan *plugin.ReattachConfig, 1)
			closeCh := make(chan struct{})
			cfg := &plugin.ServeConfig{
				HandshakeConfig: plugin.HandshakeConfig{ProtocolVersion: 1, MagicCookieKey: defaultCookieKey, MagicCookieValue: defaultCookieValue},
				Plugins:         buildSet(set, 1, "plugin"),
				Logger:          nullLogger(),
				Test:            &plugin.ServeTestConfig{Context: ctx, ReattachConfigCh: rch, CloseCh: closeCh},
			}
			if op.Proto == "grpc" {
				cfg.GRPCServer = plugin.DefaultGRPCServer
			}
			go plugin.Serve(cfg)
			var rc *plugin.ReattachConfig
			select {
			case rc = <-rch:
			case <-time.After(10 * time.Second):
				cancel()
				out.Slow = "test-mode Serve did not deliver a reattach config within 10 s"
				return
			}
			if !rc.Test {
				out.violate("test-mode reattach config does not have Test set")
			}
			c15Counter++
			insts = append(insts, &c15Inst{id: c15Counter, proto: op.Proto, test: true, alive: true, kv: map[string]string{}, rc: rc, cancel: cancel, closeCh: closeCh})
		case "reattach":
			in := pick()
			if in == nil || !in.alive {
				continue
			}
			var from *plugin.ReattachConfig
			if op.Val == "chain" && len(in.clients) > 0 {
				// the configuration a client reports must be as good as the one it was built from
				src := in.clients[op.Cl%len(in.clients)]
				from = src.cl.ReattachConfig()
				if from == nil {
					out.violate("step %d: ReattachConfig() of a live client (reattached=%v) is nil", step, src.reattached)
					return
				}
				if from.Test != in.test {
					out.violate("step %d: ReattachConfig() of a client (reattached=%v) of a %s plugin has Test=%v, the plugin's own configuration has Test=%v", step, src.reattached, in.proto, from.Test, in.test)
					return
				}
				chained = true
			}
			k, err := attach(in, from)
			if err != nil {
				out.violate("step %d: reattach to live %s plugin (test mode %v, chained %v) failed: %v", step, in.proto, in.test, from != nil, err)
				return
			}
			if string(k.cl.Protocol()) != in.proto {
				out.violate("step %d: reattached client reports protocol %q, the plugin speaks %q", step, k.cl.Protocol(), in.proto)
				return
			}
			in.clients = append(in.clients, k)
			reattachCount[in.id]++
		case "set", "get":
			in := pick()
			if in == nil || !in.alive || len(in.clients) == 0 {
				continue
			}
			k := in.clients[op.Cl%len(in.clients)]
			key := fmt.Sprintf("i%d/%s", in.id, op.Key)
			if op.Op == "set" {
				if _, err := k.h.DoT(Cmd{Op: "set", S: key, B: []byte(op.Val)}, 20*time.Second); err != nil {
					out.violate("step %d: set through client %d of a live plugin failed: %v", step, op.Cl%len(in.clients), err)
					return
				}
				in.kv[op.Key] = op.Val
			} else {
				r, err := k.h.DoT(Cmd{Op: "get", S: key}, 20*time.Second)
				if err != nil {
					out.violate("step %d: get through client %d of a live plugin failed: %v", step, op.Cl%len(in.clients), err)
					return
				}
				want, ok := in.kv[op.Key]
				if (r.N == 1) != ok || r.S != want {
					out.violate("step %d: client %d (reattached=%v) reads %q/%v for key %s, the instance holds %q/%v: not the same plugin instance", step, op.Cl%len(in.clients), k.reattached, r.S, r.N == 1, op.Key, want, ok)
					return
				}
			}
		case "kill":
			in := pick()
			if in == nil || !in.alive || len(in.clients) == 0 {
				continue
			}
			idx := op.Cl % len(in.clients)
			k := in.clients[idx]
			if _, ok := killBounded(k.cl, 20*time.Second); !ok {
				out.Slow = fmt.Sprintf("step %d: Kill did not return within 20 s", step)
				return
			}
			in.clients = append(in.clients[:idx], in.clients[idx+1:]...)
			if in.test {
				// test mode: the serving side must keep running and accept a new reattach
				k2, err := attach(in, nil)
				if err != nil {
					out.violate("step %d: after Kill on a test-mode client the server no longer answers a reattach: %v", step, err)
					return
				}
				in.clients = append(in.clients, k2)
				select {
				case <-in.closeCh:
					out.violate("step %d: Kill on a test-mode client stopped the serving side", step)
					return
				default:
				}
			} else {
				// killing any client of a normal plugin terminates that plugin
				// (dead = gone or a zombie: the client that launched it reaps it in its own time)
				if !waitPidDead(in.pid, 5*time.Second) {
					out.violate("step %d: Kill through a client (reattached=%v) returned but plugin process %d is still running", step, k.reattached, in.pid)
					return
				}
				in.alive = false
				for _, o := range in.clients {
					killBounded(o.cl, 20*time.Second)
				}
				in.clients = nil
			}
		case "reattach_dead":
			in := pick()
			if in == nil || in.alive {
				continue
			}
			sawDead = true
			cc := hostCfg()
			rc := *in.rc
			cc.Reattach = &rc
			cl := plugin.NewClient(cc)
			_, err := cl.Start()
			// asking the same client again must not turn the failure into a connection
			addr2, err2 := cl.Start()
			_, err3 := cl.Client()
			rc2 := cl.ReattachConfig()
			killBounded(cl, 20*time.Second)
			if err == nil {
				out.violate("step %d: reattach to a dead plugin succeeded", step)
				return
			}
			if err2 == nil || err3 == nil {
				out.violate("step %d: reattach to a dead plugin failed (%v) but a second Start on the same client returned addr=%v err=%v and Client() err=%v", step, err, addr2, err2, err3)
				return
			}
			if rc2 != nil {
				out.violate("step %d: reattach to a dead plugin failed (%v) but the client then offers a ReattachConfig: %+v", step, err, *rc2)
				return
			}
			if !errors.Is(err, plugin.ErrProcessNotFound) {
				out.violate("step %d: reattach to a dead plugin failed with %q, expected ErrProcessNotFound", step, err)
				return
			}
		case "cancel":
			in := pick()
			if in == nil || !in.test || !in.alive {
				continue
			}
			in.cancel()
			select {
			case <-in.closeCh:
			case <-time.After(5 * time.Second):
				out.Slow = fmt.Sprintf("step %d: CloseCh not closed within 5 s of cancelling a test-mode server's context", step)
				return
			}
			in.alive = false
			for _, o := range in.clients {
				killBounded(o.cl, 20*time.Second)
			}
			in.clients = nil
		}
	}
	multi := false
	for _, n := range reattachCount {
		if n >= 2 {
			multi = true
		}
	}
	out.NonTrivial = multi || sawDead || sawTest
	if multi {
		out.label("multi-reattach")
	}
	if sawDead {
		out.label("reattach-after-death")
	}
	if sawTest {
		out.label("test-mode")
	}
	if chained {
		out.label("chained-reattach")
	}
	return
}

var propC15 = register(&Prop{
	ID:  "C15",
	Gen: c15Gen,
	New: func() any { return &c15Case{} },
	Run: c15Run,
	Rule: "rapid draws a history of 3-11 operations over {start a real plugin (net/rpc or gRPC), start an in-process test-mode server, reattach to instance i (any number of times), set/get a key through any live client of instance i, Kill a client, reattach to a dead instance, cancel a test-mode server's context}. " +
		"Model: per instance {alive, key/value map}. Oracle: every read through any client equals the model (same instance), a reattached client reports the original protocol, Kill through any client of a normal plugin ends the process, reattach to a dead plugin gives ErrProcessNotFound (errors.Is), " +
		"Kill on a test-mode client leaves the server answering a new reattach with CloseCh open, and CloseCh closes within 5 s of cancelling its context. Non-trivial: >= 2 reattaches to one instance, a reattach after death, or the test-mode path.",
	Assumptions: []string{"instance state lives in the plugin process (keys are namespaced per instance, so in-process test-mode servers do not interfere)"},
})
