package props

// Observers: recording logger, safe buffers, /proc state, certificates.

import (
	"bytes"
	"crypto/ecdsa"
	"crypto/elliptic"
	"crypto/rand"
	"crypto/x509"
	"crypto/x509/pkix"
	"encoding/pem"
	"fmt"
	"io"
	"log"
	"math/big"
	"os"
	"strings"
	"sync"
	"time"

	hclog "github.com/hashicorp/go-hclog"
)

// LogRec is one record received by the recording logger.
type LogRec struct {
	Level hclog.Level
	Name  string
	Msg   string
	Args  []interface{}
}

type recCore struct {
	mu   sync.Mutex
	recs []LogRec
}

// recLogger implements hclog.Logger and records everything.
type recLogger struct {
	core *recCore
	name string
	args []interface{}
}

func newRecLogger() *recLogger { return &recLogger{core: &recCore{}} }

func (l *recLogger) records() []LogRec {
	l.core.mu.Lock()
	defer l.core.mu.Unlock()
	return append([]LogRec{}, l.core.recs...)
}

func (l *recLogger) Log(level hclog.Level, msg string, args ...interface{}) {
	l.core.mu.Lock()
	defer l.core.mu.Unlock()
	all := append(append([]interface{}{}, l.args...), args...)
	l.core.recs = append(l.core.recs, LogRec{Level: level, Name: l.name, Msg: msg, Args: all})
}
func (l *recLogger) Trace(msg string, args ...interface{}) { l.Log(hclog.Trace, msg, args...) }
func (l *recLogger) Debug(msg string, args ...interface{}) { l.Log(hclog.Debug, msg, args...) }
func (l *recLogger) Info(msg string, args ...interface{})  { l.Log(hclog.Info, msg, args...) }
func (l *recLogger) Warn(msg string, args ...interface{})  { l.Log(hclog.Warn, msg, args...) }
func (l *recLogger) Error(msg string, args ...interface{}) { l.Log(hclog.Error, msg, args...) }
func (l *recLogger) IsTrace() bool                         { return true }
func (l *recLogger) IsDebug() bool                         { return true }
func (l *recLogger) IsInfo() bool                          { return true }
func (l *recLogger) IsWarn() bool                          { return true }
func (l *recLogger) IsError() bool                         { return true }
func (l *recLogger) ImpliedArgs() []interface{}            { return l.args }
func (l *recLogger) With(args ...interface{}) hclog.Logger {
	return &recLogger{core: l.core, name: l.name, args: append(append([]interface{}{}, l.args...), args...)}
}
func (l *recLogger) Name() string { return l.name }
func (l *recLogger) Named(name string) hclog.Logger {
	n := name
	if l.name != "" {
		n = l.name + "." + name
	}
	return &recLogger{core: l.core, name: n, args: l.args}
}
func (l *recLogger) ResetNamed(name string) hclog.Logger {
	return &recLogger{core: l.core, name: name, args: l.args}
}
func (l *recLogger) SetLevel(hclog.Level) {}
func (l *recLogger) StandardLogger(*hclog.StandardLoggerOptions) *log.Logger {
	return log.New(io.Discard, "", 0)
}
func (l *recLogger) StandardWriter(*hclog.StandardLoggerOptions) io.Writer { return io.Discard }

func nullLogger() hclog.Logger { return hclog.NewNullLogger() }

// safeBuf is a goroutine-safe bytes.Buffer.
type safeBuf struct {
	mu sync.Mutex
	b  bytes.Buffer
}

func (s *safeBuf) Write(p []byte) (int, error) {
	s.mu.Lock()
	defer s.mu.Unlock()
	return s.b.Write(p)
}
func (s *safeBuf) Bytes() []byte {
	s.mu.Lock()
	defer s.mu.Unlock()
	return append([]byte{}, s.b.Bytes()...)
}
func (s *safeBuf) Len() int {
	s.mu.Lock()
	defer s.mu.Unlock()
	return s.b.Len()
}

// procState returns the state letter of a pid from /proc ("" = no such process).
func procState(pid int) string {
	b, err := os.ReadFile(fmt.Sprintf("/proc/%d/stat", pid))
	if err != nil {
		return ""
	}
	s := string(b)
	i := strings.LastIndexByte(s, ')')
	if i < 0 || i+2 >= len(s) {
		return ""
	}
	return string(s[i+2])
}

// pidGone: the process does not exist any more (exited and reaped).
func pidGone(pid int) bool { return procState(pid) == "" }

// waitPidGone polls until the pid has disappeared (reaped) or d elapsed.
func waitPidGone(pid int, d time.Duration) bool {
	deadline := time.Now().Add(d)
	for {
		if pidGone(pid) {
			return true
		}
		if time.Now().After(deadline) {
			return false
		}
		time.Sleep(5 * time.Millisecond)
	}
}

// waitPidDead: process gone or a zombie (dead but not yet reaped).
func waitPidDead(pid int, d time.Duration) bool {
	deadline := time.Now().Add(d)
	for {
		st := procState(pid)
		if st == "" || st == "Z" {
			return true
		}
		if time.Now().After(deadline) {
			return false
		}
		time.Sleep(5 * time.Millisecond)
	}
}

func waitFor(d time.Duration, cond func() bool) bool {
	deadline := time.Now().Add(d)
	for {
		if cond() {
			return true
		}
		if time.Now().After(deadline) {
			return false
		}
		time.Sleep(2 * time.Millisecond)
	}
}

// genCertPEM makes a self-signed CA-capable certificate for host.
func genCertPEM(host string) (certPEM, keyPEM []byte, err error) {
	key, err := ecdsa.GenerateKey(elliptic.P256(), rand.Reader)
	if err != nil {
		return nil, nil, err
	}
	sn, _ := rand.Int(rand.Reader, new(big.Int).Lsh(big.NewInt(1), 100))
	tmpl := &x509.Certificate{
		Subject:               pkix.Name{CommonName: host, Organization: []string{"HashiCorp"}},
		DNSNames:              []string{host},
		ExtKeyUsage:           []x509.ExtKeyUsage{x509.ExtKeyUsageClientAuth, x509.ExtKeyUsageServerAuth},
		KeyUsage:              x509.KeyUsageDigitalSignature | x509.KeyUsageKeyEncipherment | x509.KeyUsageKeyAgreement | x509.KeyUsageCertSign,
		BasicConstraintsValid: true,
		SerialNumber:          sn,
		NotBefore:             time.Now().Add(-time.Minute),
		NotAfter:              time.Now().Add(24 * time.Hour),
		IsCA:                  true,
	}
	der, err := x509.CreateCertificate(rand.Reader, tmpl, tmpl, key.Public(), key)
	if err != nil {
		return nil, nil, err
	}
	kb, err := x509.MarshalECPrivateKey(key)
	if err != nil {
		return nil, nil, err
	}
	certPEM = pem.EncodeToMemory(&pem.Block{Type: "CERTIFICATE", Bytes: der})
	keyPEM = pem.EncodeToMemory(&pem.Block{Type: "EC PRIVATE KEY", Bytes: kb})
	return certPEM, keyPEM, nil
}
