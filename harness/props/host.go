package props

// Host-side helpers: building ClientConfigs from plain-JSON descriptions and
// launching the configurable plugin (the test binary itself, re-executed).

import (
	"context"
	"encoding/json"
	"fmt"
	"io"
	"os"
	"os/exec"
	"path/filepath"
	"sync"
	"sync/atomic"
	"time"

	hclog "github.com/hashicorp/go-hclog"
	plugin "github.com/hashicorp/go-plugin"
	"github.com/hashicorp/go-plugin/runner"
)

// HostCfg is the JSON-able description of a ClientConfig.
type HostCfg struct {
	LegacyVersion  uint            `json:"legacy_version,omitempty"`
	Legacy         *SetSpec        `json:"legacy,omitempty"`
	Versioned      map[int]SetSpec `json:"versioned,omitempty"`
	Allowed        []string        `json:"allowed,omitempty"` // nil = library default
	AllowedSet     bool            `json:"allowed_set,omitempty"`
	TLS            string          `json:"tls,omitempty"` // "" | static | auto
	Mux            bool            `json:"mux,omitempty"`
	Launch         string          `json:"launch,omitempty"` // "" cmd | runner
	StartTimeoutMs int             `json:"start_timeout_ms,omitempty"`
	SkipHostEnv    bool            `json:"skip_host_env,omitempty"`
	LogBuf         int             `json:"log_buf,omitempty"`
}

// selfExe is the path of the running test binary.
func selfExe() string {
	p, err := os.Executable()
	if err != nil {
		return os.Args[0]
	}
	return p
}

// pluginCmd builds the command that runs this binary as the configurable plugin.
func pluginCmd(spec PluginSpec) *exec.Cmd {
	b, _ := json.Marshal(spec)
	if len(b) > 60000 {
		// too long for one argv element: hand it over in a file
		path := filepath.Join(scratchDir(), fmt.Sprintf("spec-%d.json", atomic.AddInt64(&specSeq, 1)))
		os.WriteFile(path, b, 0o600)
		return exec.Command(selfExe(), "verif-plugin", "@"+path)
	}
	return exec.Command(selfExe(), "verif-plugin", string(b))
}

var specSeq int64

// fakeCmd builds the command that runs this binary as a scripted fake plugin.
func fakeCmd(spec FakeSpec) *exec.Cmd {
	b, _ := json.Marshal(spec)
	return exec.Command(selfExe(), "verif-fake", string(b))
}

func (h HostCfg) clientConfig() *plugin.ClientConfig {
	cc := &plugin.ClientConfig{
		HandshakeConfig: plugin.HandshakeConfig{
			ProtocolVersion:  h.LegacyVersion,
			MagicCookieKey:   defaultCookieKey,
			MagicCookieValue: defaultCookieValue,
		},
		Logger:              nullLogger(),
		GRPCBrokerMultiplex: h.Mux,
		SkipHostEnv:         h.SkipHostEnv,
		PluginLogBufferSize: h.LogBuf,
	}
	if h.Legacy != nil {
		cc.Plugins = buildSet(*h.Legacy, int(h.LegacyVersion), "host")
	}
	if h.Versioned != nil {
		cc.VersionedPlugins = map[int]plugin.PluginSet{}
		for v, s := range h.Versioned {
			cc.VersionedPlugins[v] = buildSet(s, v, "host")
		}
	}
	if h.AllowedSet || h.Allowed != nil {
		cc.AllowedProtocols = []plugin.Protocol{}
		for _, a := range h.Allowed {
			cc.AllowedProtocols = append(cc.AllowedProtocols, plugin.Protocol(a))
		}
	}
	switch h.TLS {
	case "static":
		cc.TLSConfig = hostStaticTLS()
	case "auto":
		cc.AutoMTLS = true
	}
	cc.StartTimeout = time.Duration(h.StartTimeoutMs) * time.Millisecond
	if cc.StartTimeout == 0 {
		cc.StartTimeout = 10 * time.Second
	}
	return cc
}

// ---------------------------------------------------------------------------
// execRunner: a runner.Runner wrapping exec.Cmd (the library's own CmdRunner is
// internal). Optional hooks let checks observe and translate.

type execRunner struct {
	cmd    *exec.Cmd
	stdout io.ReadCloser
	stderr io.ReadCloser
	pid    int

	kills  int32
	waited chan struct{}
	once   sync.Once
	werr   error

	// translate, when set, maps plugin paths to host paths and back
	p2h func(n, a string) (string, string, error)
	h2p func(n, a string) (string, string, error)

	p2hCalls, h2pCalls int32
	onStart            func()

	// rawStdout, when set before Start, receives a copy of everything the host reads from the plugin's stdout
	rawStdout *safeBuf
}

func newExecRunner(cmd *exec.Cmd) (*execRunner, error) {
	so, err := cmd.StdoutPipe()
	if err != nil {
		return nil, err
	}
	se, err := cmd.StderrPipe()
	if err != nil {
		return nil, err
	}
	return &execRunner{cmd: cmd, stdout: so, stderr: se, waited: make(chan struct{})}, nil
}

func (r *execRunner) Start(context.Context) error {
	if r.onStart != nil {
		r.onStart()
	}
	if err := r.cmd.Start(); err != nil {
		return err
	}
	r.pid = r.cmd.Process.Pid
	return nil
}
func (r *execRunner) Diagnose(context.Context) string { return "" }
func (r *execRunner) Stdout() io.ReadCloser {
	if r.rawStdout != nil {
		return teeReadCloser{io.TeeReader(r.stdout, r.rawStdout), r.stdout}
	}
	return r.stdout
}
func (r *execRunner) Stderr() io.ReadCloser { return r.stderr }
func (r *execRunner) Name() string          { return r.cmd.Path }
func (r *execRunner) Wait(context.Context) error {
	r.once.Do(func() {
		r.werr = r.cmd.Wait()
		close(r.waited)
	})
	<-r.waited
	return r.werr
}
func (r *execRunner) Kill(context.Context) error {
	atomic.AddInt32(&r.kills, 1)
	if r.cmd.Process != nil {
		r.cmd.Process.Kill()
	}
	return nil
}
func (r *execRunner) ID() string { return fmt.Sprintf("%d", r.pid) }
func (r *execRunner) PluginToHost(n, a string) (string, string, error) {
	atomic.AddInt32(&r.p2hCalls, 1)
	if r.p2h != nil {
		return r.p2h(n, a)
	}
	return n, a, nil
}
func (r *execRunner) HostToPlugin(n, a string) (string, string, error) {
	atomic.AddInt32(&r.h2pCalls, 1)
	if r.h2p != nil {
		return r.h2p(n, a)
	}
	return n, a, nil
}

var _ runner.Runner = (*execRunner)(nil)

// runnerFuncFor returns a RunnerFunc launching spec through execRunner. The
// created runners are appended to *made.
func runnerFuncFor(base func() *exec.Cmd, made *[]*execRunner, mu *sync.Mutex) func(hclog.Logger, *exec.Cmd, string) (runner.Runner, error) {
	return func(_ hclog.Logger, cmd *exec.Cmd, tmpDir string) (runner.Runner, error) {
		c := base()
		c.Env = append(c.Env, cmd.Env...)
		c.Stdin = cmd.Stdin
		r, err := newExecRunner(c)
		if err != nil {
			return nil, err
		}
		if mu != nil {
			mu.Lock()
			*made = append(*made, r)
			mu.Unlock()
		}
		return r, nil
	}
}

// dispense starts (if needed), connects and dispenses name, returning the handle.
func dispense(c *plugin.Client, name string) (Handle, plugin.ClientProtocol, error) {
	cp, err := c.Client()
	if err != nil {
		return nil, nil, fmt.Errorf("Client(): %w", err)
	}
	raw, err := cp.Dispense(name)
	if err != nil {
		return nil, cp, fmt.Errorf("Dispense(%q): %w", name, err)
	}
	h, ok := raw.(Handle)
	if !ok {
		return nil, cp, fmt.Errorf("dispensed %T is not a Handle", raw)
	}
	return h, cp, nil
}

// killBounded calls c.Kill() and reports whether it returned within d.
func killBounded(c *plugin.Client, d time.Duration) (time.Duration, bool) {
	return within(d, c.Kill)
}

type teeReadCloser struct {
	io.Reader
	c io.Closer
}

func (t teeReadCloser) Close() error { return t.c.Close() }
