#!/usr/bin/env python3
"""Regenerate MANIFEST.json from vconfig.PROPS and the texts in manifest_texts.json."""
import json, os, subprocess
from vconfig import PROPS
texts = json.load(open("/verif/manifest_texts.json"))
all_ids = [json.loads(l)["id"] for l in open("/verif/properties.jsonl")]
checks, na = [], []
for pid in all_ids:
    if pid in PROPS and pid in texts["checks"]:
        t = texts["checks"][pid]
        c = {
            "property_id": pid,
            "quick_cmd": "./vcheck %s quick" % pid,
            "thorough_cmd": "./vcheck %s thorough" % pid,
            "evidence_file": "/verif/evidence/%s.json" % pid,
            "replay_cmd_template": "./vcheck %s --replay {path}" % pid,
            "engine": "vcheck",
            "level_claimed": {"category": PROPS[pid]["level"], "text": t["level_text"], "design_ref": t.get("design_ref", "DESIGN.md §5 " + pid)},
            "level_note": t["level_note"],
            "technique": t["technique"],
        }
        checks.append(c)
    else:
        na.append({"property_id": pid, "reason": texts["not_applicable"].get(pid, "check not built yet in this session; see DESIGN.md §5 for the planned generated check")})
hooks = texts["hooks"]
try:
    hooks["source_commits"] = [l.split()[0] for l in subprocess.check_output(
        ["git", "-C", "/repo", "log", "--format=%h %s", "--grep", "^verif hook"], text=True).splitlines()]
except Exception:
    pass
m = {
    "version": 1,
    "setup_cmd": "./setup.sh",
    "hooks": hooks,
    "engines": [{"name": "vcheck", "path": "/verif/vcheck", "serves_properties": [c["property_id"] for c in checks],
                 "kind_free_text": "python driver: builds the harness test binary (go test -c -tags verif) against /repo's working tree, runs sharded pgregory.net/rapid property checks (in-process, isolated child host, real plugin subprocesses, go1.26.8 synctest virtual time), merges per-shard statistics into evidence, saves shrunk cases as replay files"}],
    "checks": checks,
    "not_applicable": na,
    "notes": texts["notes"],
}
json.dump(m, open("/verif/MANIFEST.json", "w"), indent=1)
print("claimed:", [c["property_id"] for c in checks])
