# Per-property job tables for vcheck. checks = rapid cases per shard.
PROPS = {
    "C01": {
        "level": "exploration",
        "jobs": [
            {"test": "TestC01", "variant": "std",
             "quick": {"checks": 2500, "shards": 12, "timeout": 300},
             "thorough": {"checks": 40000, "shards": 16, "timeout": 1500}},
        ],
    },
    "C02": {
        "level": "exploration",
        "jobs": [
            {"test": "TestC02", "variant": "std",
             "quick": {"checks": 250, "shards": 12, "timeout": 400},
             "thorough": {"checks": 5000, "shards": 16, "timeout": 1800}},
        ],
    },
    "C03": {
        "level": "fault_enumeration",
        "jobs": [
            {"test": "TestC03", "variant": "std", "case_timeout": 200,
             "quick": {"checks": 9, "shards": 14, "timeout": 500}},
            {"test": "TestC03Enum", "variant": "std", "enum": True, "case_timeout": 200,
             "thorough": {"checks": 1, "shards": 16, "timeout": 3000}},
            {"test": "TestC03", "variant": "std", "case_timeout": 200,
             "thorough": {"checks": 60, "shards": 16, "timeout": 3000}},
        ],
    },
    "C04": {
        "level": "fault_enumeration",
        "jobs": [
            {"test": "TestC04", "variant": "std", "case_timeout": 200,
             "quick": {"checks": 3, "shards": 8, "timeout": 500},
             "thorough": {"checks": 25, "shards": 12, "timeout": 2400}},
            {"test": "TestC04Cleanup", "variant": "std", "case_timeout": 200,
             "quick": {"checks": 5, "shards": 4, "timeout": 500},
             "thorough": {"checks": 60, "shards": 4, "timeout": 2400}},
        ],
    },
    "C05": {
        "level": "fault_enumeration",
        "jobs": [
            {"test": "TestC05", "variant": "std",
             "quick": {"checks": 120, "shards": 12, "timeout": 400},
             "thorough": {"checks": 2500, "shards": 16, "timeout": 1800}},
        ],
    },
    "C06": {
        "level": "exploration",
        "jobs": [
            {"test": "TestC06VT", "variant": "vt", "shrinktime": "100000h", "confirm_env": {"VERIF_REALTIME": "1"},
             "quick": {"checks": 1200, "shards": 8, "timeout": 400},
             "thorough": {"checks": 4500, "shards": 16, "timeout": 2400}},
        ],
    },
    "C07": {
        "level": "exploration",
        "jobs": [
            {"test": "TestC07", "variant": "std",
             "quick": {"checks": 60, "shards": 8, "timeout": 400},
             "thorough": {"checks": 1200, "shards": 10, "timeout": 2400}},
            {"test": "TestC07Sub", "variant": "std",
             "quick": {"checks": 30, "shards": 6, "timeout": 400},
             "thorough": {"checks": 500, "shards": 6, "timeout": 2400}},
        ],
    },
    "C08": {
        "level": "exploration",
        "jobs": [
            {"test": "TestC08", "variant": "std",
             "quick": {"checks": 40, "shards": 8, "timeout": 400},
             "thorough": {"checks": 1000, "shards": 10, "timeout": 2400}},
            {"test": "TestC08Sub", "variant": "std",
             "quick": {"checks": 25, "shards": 6, "timeout": 400},
             "thorough": {"checks": 500, "shards": 6, "timeout": 2400}},
        ],
    },
    "C09": {
        "level": "exploration",
        "jobs": [
            {"test": "TestC09VT", "variant": "vt", "shrinktime": "100000h", "confirm_env": {"VERIF_REALTIME": "1"},
             "quick": {"checks": 600, "shards": 8, "timeout": 400},
             "thorough": {"checks": 3000, "shards": 16, "timeout": 2400}},
            {"test": "TestC09Raw", "variant": "std",
             "quick": {"checks": 150, "shards": 4, "timeout": 400},
             "thorough": {"checks": 4000, "shards": 8, "timeout": 2400}},
            {"test": "TestC09RT", "variant": "std",
             "quick": {"checks": 2, "shards": 6, "timeout": 400},
             "thorough": {"checks": 12, "shards": 12, "timeout": 2400}},
        ],
    },
    "C10": {
        "level": "exploration",
        "jobs": [
            {"test": "TestC10", "variant": "std",
             "quick": {"checks": 1500, "shards": 12, "timeout": 400},
             "thorough": {"checks": 25000, "shards": 16, "timeout": 1800}},
        ],
    },
    "C14": {
        "level": "exploration",
        "jobs": [
            {"test": "TestC14", "variant": "std",
             "quick": {"checks": 22, "shards": 12, "timeout": 400}},
            {"test": "TestC14Enum", "variant": "std", "enum": True,
             "thorough": {"checks": 1, "shards": 16, "timeout": 2400}},
        ],
    },
    "C15": {
        "level": "exploration",
        "jobs": [
            {"test": "TestC15", "variant": "std",
             "quick": {"checks": 20, "shards": 12, "timeout": 400},
             "thorough": {"checks": 300, "shards": 16, "timeout": 2400}},
        ],
    },
    "C16": {
        "level": "exploration",
        "jobs": [
            {"test": "TestC16", "variant": "std",
             "quick": {"checks": 200, "shards": 12, "timeout": 400},
             "thorough": {"checks": 4000, "shards": 16, "timeout": 1800}},
        ],
    },
    "C17": {
        "level": "exploration",
        "jobs": [
            {"test": "TestC17", "variant": "std",
             "quick": {"checks": 150, "shards": 12, "timeout": 400},
             "thorough": {"checks": 3000, "shards": 16, "timeout": 1800}},
        ],
    },
    "C18": {
        "level": "exploration",
        "jobs": [
            {"test": "TestC18", "variant": "std", "case_timeout": 200,
             "quick": {"checks": 16, "shards": 12, "timeout": 500},
             "thorough": {"checks": 250, "shards": 16, "timeout": 3000}},
        ],
    },
    "C19": {
        "level": "exploration",
        "jobs": [
            {"test": "TestC19", "variant": "std",
             "quick": {"checks": 150, "shards": 10, "timeout": 400},
             "thorough": {"checks": 4000, "shards": 12, "timeout": 1800}},
            {"test": "TestC19", "variant": "race",
             "quick": {"checks": 60, "shards": 4, "timeout": 400},
             "thorough": {"checks": 1500, "shards": 4, "timeout": 1800}},
        ],
    },
    "C11": {
        "level": "exploration",
        "jobs": [
            {"test": "TestC11", "variant": "std",
             "quick": {"checks": 300, "shards": 12, "timeout": 400},
             "thorough": {"checks": 8000, "shards": 16, "timeout": 1800}},
        ],
    },
    "C12": {
        "level": "exploration",
        "jobs": [
            {"test": "TestC12", "variant": "std",
             "quick": {"checks": 12, "shards": 14, "timeout": 400},
             "thorough": {"checks": 150, "shards": 14, "timeout": 2400}},
            {"test": "TestC12Enum", "variant": "std", "enum": True,
             "quick": {"checks": 1, "shards": 2, "timeout": 400},
             "thorough": {"checks": 1, "shards": 2, "timeout": 2400}},
        ],
    },
    "C20": {
        "level": "exploration",
        "jobs": [
            {"test": "TestC20", "variant": "race", "case_timeout": 200,
             "env": {"GORACE": "log_path={rundir}/race halt_on_error=0"},
             "quick": {"checks": 14, "shards": 14, "timeout": 500},
             "thorough": {"checks": 300, "shards": 16, "timeout": 3000}},
        ],
    },
    "C13": {
        "level": "exploration",
        "jobs": [
            {"test": "TestC13", "variant": "std",
             "quick": {"checks": 400, "shards": 12, "timeout": 300},
             "thorough": {"checks": 12000, "shards": 16, "timeout": 1500}},
        ],
    },
}
