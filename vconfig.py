# Per-property job tables for vcheck. checks = rapid cases per shard.
PROPS = {
    "C01": {
        "level": "exploration",
        "jobs": [
            {"test": "TestC01", "variant": "std",
             "quick": {"checks": 2500, "shards": 12, "timeout": 300},
             "thorough": {"checks": 40000, "shards": 16, "timeout": 1500}},
        ],
    },
    "C10": {
        "level": "exploration",
        "jobs": [
            {"test": "TestC10", "variant": "std",
             "quick": {"checks": 1500, "shards": 12, "timeout": 400},
             "thorough": {"checks": 25000, "shards": 16, "timeout": 1800}},
        ],
    },
    "C13": {
        "level": "exploration",
        "jobs": [
            {"test": "TestC13", "variant": "std",
             "quick": {"checks": 400, "shards": 12, "timeout": 300},
             "thorough": {"checks": 12000, "shards": 16, "timeout": 1500}},
        ],
    },
}
