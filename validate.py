#!/usr/bin/env python3
"""Validate MANIFEST.json and evidence files against the schemas (uses the tooling venv's jsonschema)."""
import json, sys, glob
import jsonschema
ok = True
def check(path, schema):
    global ok
    try:
        jsonschema.validate(json.load(open(path)), json.load(open(schema)))
        print("ok", path)
    except Exception as e:
        ok = False
        print("INVALID", path, str(e)[:500])
check("/verif/MANIFEST.json", "/root/.vp/MANIFEST.schema.json")
for p in sorted(glob.glob("/verif/evidence/*.json")):
    check(p, "/root/.vp/EVIDENCE.schema.json")
sys.exit(0 if ok else 1)
