#!/bin/bash
# Offline setup: check the toolchains and warm the build cache by building every test-binary variant once.
set -e
cd "$(dirname "$0")"
exec ./vcheck --build-only
