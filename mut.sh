#!/bin/bash
# mut.sh <patch-file> <ID> [tier]  — run a check against a changed copy of the repository.
# The patch is applied to a scratch worktree of /repo (VERIF_REPO), never to /repo itself, and the
# run's evidence and replay files go to a scratch directory (VERIF_RESULTS), so nothing under
# /verif/evidence ever describes a changed tree. Everything is removed afterwards.
set -u
patch="$1"; id="$2"; tier="${3:-quick}"
wt="/tmp/verif-mut/$id-$$"
mkdir -p /tmp/verif-mut
git -C /repo worktree prune
git -C /repo worktree add -q --detach "$wt/repo" HEAD || exit 3
trap 'git -C /repo worktree remove --force "$wt/repo" 2>/dev/null; git -C /repo worktree prune; rm -rf "$wt"' EXIT
git -C "$wt/repo" apply "$patch" || { echo "patch does not apply"; exit 3; }
cd /verif && VERIF_REPO="$wt/repo" VERIF_RESULTS="$wt/out" ./vcheck "$id" "$tier"
rc=$?
echo "mut rc=$rc"
exit $rc
