#!/bin/bash
# mut.sh <patch-file> <ID> [tier]  — apply a patch to /repo, run the check, always revert.
set -u
patch="$1"; id="$2"; tier="${3:-quick}"
git -C /repo apply "$patch" || { echo "patch does not apply"; exit 3; }
trap 'git -C /repo checkout -- . ; git -C /repo clean -fdq -- . 2>/dev/null' EXIT
cd /verif && ./vcheck "$id" "$tier"
rc=$?
echo "mut rc=$rc"
exit $rc
